//! C18 — DER and RLP integer codecs through their stream seams, against strict reference codecs.
//!
//! The "system" is a record store: put(x) encodes through the real encoder into a simulator-owned
//! writer, faults hit the medium, get() decodes through the real decoder.

use crate::core::{RunOut, Tier, TypedScenario};
use crate::dev::der_writer::SimDerWriter;
use crate::dev::medium::{Fault, hex, hexbytes};
use crate::model::codec::{self, Bad};
use crate::monitor::{Guarded, PanicInfo, guard};
use crate::prng::{Xoshiro, mix};
use crypto_bigint::*;
use der::{Decode, Encode, Reader};
use num_bigint::BigUint;
use num_traits::{One, Zero};
use serde::{Deserialize, Serialize};
use serde_json::Value;

pub const DER_WIDTHS: [u32; 20] =
    [64, 128, 192, 256, 384, 448, 512, 576, 768, 832, 896, 1024, 1536, 1792, 2048, 3072, 3584, 4096, 6144, 8192];
pub const DER_QUICK: [u32; 8] = [64, 128, 192, 256, 384, 512, 1024, 4096];
pub const RLP_DEC_WIDTHS: [u32; 4] = [64, 128, 192, 256];

macro_rules! with_der_type {
    ($bits:expr, $T:ident, $body:block, else $fb:block) => {
        match $bits {
            64 => { type $T = U64; $body }
            128 => { type $T = U128; $body }
            192 => { type $T = U192; $body }
            256 => { type $T = U256; $body }
            384 => { type $T = U384; $body }
            448 => { type $T = U448; $body }
            512 => { type $T = U512; $body }
            576 => { type $T = U576; $body }
            768 => { type $T = U768; $body }
            832 => { type $T = U832; $body }
            896 => { type $T = U896; $body }
            1024 => { type $T = U1024; $body }
            1536 => { type $T = U1536; $body }
            1792 => { type $T = U1792; $body }
            2048 => { type $T = U2048; $body }
            3072 => { type $T = U3072; $body }
            3584 => { type $T = U3584; $body }
            4096 => { type $T = U4096; $body }
            6144 => { type $T = U6144; $body }
            8192 => { type $T = U8192; $body }
            _ => $fb,
        }
    };
}

macro_rules! with_rlp_dec_type {
    ($bits:expr, $T:ident, $body:block, else $fb:block) => {
        match $bits {
            64 => { type $T = U64; $body }
            128 => { type $T = U128; $body }
            192 => { type $T = U192; $body }
            256 => { type $T = U256; $body }
            _ => $fb,
        }
    };
}

#[derive(Clone, Copy, Debug, Serialize, Deserialize, PartialEq, Eq)]
pub enum Entry {
    /// `Decode::from_der`
    FromDer,
    /// `SliceReader` + `sequence(|r| (decode, decode))` + `finish` — SEQUENCE { INTEGER, INTEGER }
    Seq2,
    /// `TryFrom<AnyRef>` with the given tag octet; bytes = content
    AnyRef(u8),
    /// `UintRef::new(bytes)` then `TryFrom<UintRef>`
    UintRef,
    /// `Decode::decode` through the simulator-owned reader device, then `finish`:
    /// lending or not (a non-lending reader cannot hand out borrowed slices), optionally failing at the k-th read
    ReaderDev { lending: bool, fail_at: Option<usize> },
    /// `Reader::context_specific::<T>(1, TagMode::Implicit)` + `finish` — `[1] IMPLICIT INTEGER`; bytes = whole TLV
    CtxImplicit,
    /// `Reader::context_specific::<T>(1, TagMode::Explicit)` + `finish` — `[1] EXPLICIT INTEGER`; bytes = whole TLV
    CtxExplicit,
    /// `SliceReader` + `sequence(|r| k x decode)` + `finish` — SEQUENCE of k INTEGERs
    SeqN(u8),
    /// `rlp::decode`
    Rlp,
    /// `Rlp::new(bytes).val_at(0..2)` — list of two integers
    RlpList2,
}

#[derive(Clone, Debug, PartialEq, Eq)]
pub enum Dec {
    Ok(Vec<BigUint>),
    Err(String),
    Panic(PanicInfo),
    Unsupported,
}

fn val<T: Encoding>(x: &T) -> BigUint {
    BigUint::from_bytes_be(x.to_be_bytes().as_ref())
}

fn der_decode_t<T>(entry: Entry, b: &[u8]) -> Dec
where
    T: Encoding + for<'a> Decode<'a, Error = der::Error> + for<'a> der::DecodeValue<'a, Error = der::Error> + der::FixedTag + for<'a> TryFrom<der::asn1::AnyRef<'a>, Error = der::Error> + for<'a> TryFrom<der::asn1::UintRef<'a>, Error = der::Error>,
{
    let g = guard(|| -> Result<Vec<BigUint>, String> {
        match entry {
            Entry::CtxImplicit | Entry::CtxExplicit => {
                use der::Reader as _;
                let mode = if entry == Entry::CtxImplicit { der::TagMode::Implicit } else { der::TagMode::Explicit };
                let mut r = der::SliceReader::new(b).map_err(|e| e.to_string())?;
                let v: Option<T> = r.context_specific::<T>(der::TagNumber::new(1), mode).map_err(|e| e.to_string())?;
                let v = r.finish(v).map_err(|e| e.to_string())?;
                match v {
                    Some(x) => Ok(vec![val(&x)]),
                    None => Err("field absent".into()),
                }
            }
            Entry::SeqN(k) => {
                use der::Reader as _;
                let mut r = der::SliceReader::new(b).map_err(|e| e.to_string())?;
                let items = r
                    .sequence(|r| {
                        let mut v = Vec::new();
                        for _ in 0..k {
                            v.push(T::decode(r)?);
                        }
                        Ok::<_, der::Error>(v)
                    })
                    .map_err(|e| e.to_string())?;
                let items = r.finish(items).map_err(|e| e.to_string())?;
                Ok(items.iter().map(val).collect())
            }
            Entry::FromDer => T::from_der(b).map(|v| vec![val(&v)]).map_err(|e| e.to_string()),
            Entry::Seq2 => {
                let mut r = der::SliceReader::new(b).map_err(|e| e.to_string())?;
                let pair = r
                    .sequence(|r| {
                        let a = T::decode(r)?;
                        let c = T::decode(r)?;
                        Ok::<_, der::Error>((a, c))
                    })
                    .map_err(|e| e.to_string())?;
                let pair = r.finish(pair).map_err(|e| e.to_string())?;
                Ok(vec![val(&pair.0), val(&pair.1)])
            }
            Entry::AnyRef(tag) => {
                let tag = der::Tag::try_from(tag).map_err(|e| e.to_string())?;
                let any = der::asn1::AnyRef::new(tag, b).map_err(|e| e.to_string())?;
                T::try_from(any).map(|v| vec![val(&v)]).map_err(|e| e.to_string())
            }
            Entry::UintRef => {
                let u = der::asn1::UintRef::new(b).map_err(|e| e.to_string())?;
                T::try_from(u).map(|v| vec![val(&v)]).map_err(|e| e.to_string())
            }
            Entry::ReaderDev { lending, fail_at } => {
                let mut r = crate::dev::der_reader::SimDerReader::new(b, lending, fail_at);
                let v = T::decode(&mut r).map_err(|e| e.to_string())?;
                let fired = r.fault_fired;
                let v = r.finish(v).map_err(|e| e.to_string())?;
                if fired {
                    // a value came back although the reader device reported a failure during the decode:
                    // flagged by an extra marker element, which no reference result has
                    return Ok(vec![val(&v), BigUint::from(0xdead_u32)]);
                }
                Ok(vec![val(&v)])
            }
            _ => Err("not a DER entry".into()),
        }
    });
    match g {
        Guarded::Done(Ok(v)) => Dec::Ok(v),
        Guarded::Done(Err(e)) => Dec::Err(e),
        Guarded::Panic(p) => Dec::Panic(p),
        Guarded::Budget => Dec::Err("budget".into()),
    }
}

fn rlp_decode_t<T: Encoding + rlp::Decodable>(entry: Entry, b: &[u8]) -> Dec {
    let g = guard(|| -> Result<Vec<BigUint>, String> {
        match entry {
            Entry::Rlp => rlp::decode::<T>(b).map(|v| vec![val(&v)]).map_err(|e| e.to_string()),
            Entry::RlpList2 => {
                let r = rlp::Rlp::new(b);
                let a: T = r.val_at(0).map_err(|e| e.to_string())?;
                let c: T = r.val_at(1).map_err(|e| e.to_string())?;
                Ok(vec![val(&a), val(&c)])
            }
            _ => Err("not an RLP entry".into()),
        }
    });
    match g {
        Guarded::Done(Ok(v)) => Dec::Ok(v),
        Guarded::Done(Err(e)) => Dec::Err(e),
        Guarded::Panic(p) => Dec::Panic(p),
        Guarded::Budget => Dec::Err("budget".into()),
    }
}

/// What the `rlp` crate's framing layer hands to a `Decodable` impl for this entry point.
struct Payload(Vec<u8>);
impl rlp::Decodable for Payload {
    fn decode(r: &rlp::Rlp<'_>) -> Result<Self, rlp::DecoderError> {
        r.decoder().decode_value(|b| Ok(Payload(b.to_vec())))
    }
}

/// RLP reference with framing deferred to the `rlp` crate: the payload slices it delivers must each be a
/// canonical integer (no leading zero octet) that fits.
fn rlp_ref_via_framing(entry: Entry, b: &[u8], max: usize) -> Result<Vec<BigUint>, Bad> {
    let payloads: Vec<Vec<u8>> = match guard(|| match entry {
        Entry::Rlp => rlp::decode::<Payload>(b).map(|p| vec![p.0]),
        _ => {
            let r = rlp::Rlp::new(b);
            r.val_at::<Payload>(0).and_then(|a| r.val_at::<Payload>(1).map(|c| vec![a.0, c.0]))
        }
    }) {
        Guarded::Done(Ok(v)) => v,
        _ => return Err(Bad::Length),
    };
    let mut out = Vec::new();
    for p in payloads {
        if p.first() == Some(&0) {
            return Err(Bad::NonMinimal);
        }
        if p.len() > max {
            return Err(Bad::Oversized);
        }
        out.push(BigUint::from_bytes_be(&p));
    }
    Ok(out)
}

pub fn real_decode(bits: u32, entry: Entry, b: &[u8]) -> Dec {
    match entry {
        Entry::Rlp | Entry::RlpList2 => with_rlp_dec_type!(bits, T, { rlp_decode_t::<T>(entry, b) }, else { Dec::Unsupported }),
        _ => with_der_type!(bits, T, { der_decode_t::<T>(entry, b) }, else { Dec::Unsupported }),
    }
}

/// Reference verdict for the same entry point.
pub fn ref_decode(bits: u32, entry: Entry, b: &[u8]) -> Result<Vec<BigUint>, Bad> {
    let max = (bits / 8) as usize;
    match entry {
        Entry::FromDer | Entry::ReaderDev { .. } => codec::der_int_decode(b, max).map(|v| vec![v]),
        Entry::Seq2 => codec::der_seq2_decode(b, max).map(|(a, c)| vec![a, c]),
        Entry::AnyRef(tag) => {
            if tag != 0x02 {
                return Err(Bad::Tag);
            }
            codec::der_int_content_decode(b, max).map(|v| vec![v])
        }
        Entry::UintRef => {
            // UintRef::new strips leading zeros: the value is the big-endian integer if it fits
            let first = b.iter().position(|&x| x != 0).unwrap_or(b.len());
            let mag = &b[first..];
            if mag.len() > max { Err(Bad::Oversized) } else { Ok(vec![BigUint::from_bytes_be(mag)]) }
        }
        Entry::CtxImplicit => {
            // the INTEGER's own tag is replaced by the primitive context-specific tag [1]
            if b.first() != Some(&0x81) {
                return Err(if b.is_empty() { Bad::Empty } else { Bad::Tag });
            }
            let mut t = b.to_vec();
            t[0] = 0x02;
            codec::der_int_decode(&t, max).map(|v| vec![v])
        }
        Entry::CtxExplicit => {
            // constructed context-specific tag [1] around one complete INTEGER
            let (h, n) = codec::der_header(b, 0xa1)?;
            if b.len() < h + n {
                return Err(Bad::Truncated);
            }
            if b.len() != h + n {
                return Err(Bad::Trailing);
            }
            codec::der_int_decode(&b[h..], max).map(|v| vec![v])
        }
        Entry::SeqN(k) => {
            let (h, n) = codec::der_header(b, 0x30)?;
            if b.len() < h + n {
                return Err(Bad::Truncated);
            }
            if b.len() != h + n {
                return Err(Bad::Trailing);
            }
            let body = &b[h..];
            let (mut at, mut vals) = (0usize, Vec::new());
            for _ in 0..k {
                let (v, used) = codec::der_int_tlv(&body[at..], max)?;
                vals.push(v);
                at += used;
            }
            if at != body.len() {
                return Err(Bad::Trailing);
            }
            Ok(vals)
        }
        Entry::Rlp => codec::rlp_decode_first(b, max).map(|(v, _)| vec![v]),
        Entry::RlpList2 => {
            // list header, then two canonical items
            let Some(&p) = b.first() else { return Err(Bad::Empty) };
            if p < 0xc0 {
                return Err(Bad::Tag);
            }
            let (off, len) = if p <= 0xf7 {
                (1usize, (p - 0xc0) as usize)
            } else {
                let ll = (p - 0xf7) as usize;
                if b.len() < 1 + ll {
                    return Err(Bad::Truncated);
                }
                if b[1] == 0 {
                    return Err(Bad::Length);
                }
                let mut len = 0usize;
                for &x in &b[1..1 + ll] {
                    len = len.checked_mul(256).and_then(|v| v.checked_add(x as usize)).ok_or(Bad::Length)?;
                }
                if len < 56 {
                    return Err(Bad::Length);
                }
                (1 + ll, len)
            };
            if len > b.len() || b.len() < off + len {
                return Err(Bad::Truncated);
            }
            let body = &b[off..off + len];
            let (a, ua) = codec::rlp_decode_first(body, max)?;
            let (c, _) = codec::rlp_decode_first(&body[ua..], max)?;
            Ok(vec![a, c])
        }
    }
}

fn entry_name(e: Entry) -> String {
    match e {
        Entry::FromDer => "from_der".into(),
        Entry::Seq2 => "reader-seq2".into(),
        Entry::AnyRef(t) => format!("TryFrom<AnyRef>(tag={:02x})", t),
        Entry::UintRef => "TryFrom<UintRef>".into(),
        Entry::ReaderDev { lending, fail_at } => format!("decode(SimDerReader:{}{})", if lending { "lending" } else { "non-lending" }, if fail_at.is_some() { ":read-fault" } else { "" }),
        Entry::CtxImplicit => "context_specific(1,Implicit)".into(),
        Entry::CtxExplicit => "context_specific(1,Explicit)".into(),
        Entry::SeqN(k) => format!("reader-seq{}", k),
        Entry::Rlp => "rlp::decode".into(),
        Entry::RlpList2 => "Rlp::val_at".into(),
    }
}

fn is_rlp(e: Entry) -> bool {
    matches!(e, Entry::Rlp | Entry::RlpList2)
}

/// length class of the longest run of payload relative to BYTES — for signatures
fn len_class(bits: u32, b: &[u8]) -> &'static str {
    let max = (bits / 8) as usize;
    if b.len() <= max {
        "len<=BYTES"
    } else if b.len() <= max + 4 {
        "len=BYTES+1..4"
    } else {
        "len>BYTES+4"
    }
}

fn raw_plan(bits: u32, entry: Entry, b: &[u8]) -> Option<Value> {
    serde_json::to_value(Plan::Raw { bits, entry, bytes: b.to_vec() }).ok()
}

/// Oracle 2: fail closed. Returns the real verdict.
pub fn check_decode(bits: u32, entry: Entry, b: &[u8], out: &mut RunOut) -> Dec {
    let real = real_decode(bits, entry, b);
    if real == Dec::Unsupported {
        return real;
    }
    let strict = ref_decode(bits, entry, b);
    // RLP: item framing (header forms, list boundaries, trailing bytes) belongs to the `rlp` crate; the
    // crypto-bigint codec is judged on the payload that layer delivers. Where the strict RLP reading
    // disagrees with the framing layer, that is counted, not reported.
    let reference = if is_rlp(entry) {
        let via = rlp_ref_via_framing(entry, b, (bits / 8) as usize);
        if via.is_ok() && strict.is_err() {
            out.count("probe:rlp-crate-framing-laxer-than-spec");
        }
        if via.is_err() && strict.is_ok() {
            out.count("probe:rlp-crate-framing-stricter-than-spec");
        }
        via
    } else {
        strict
    };
    let fam = if is_rlp(entry) { "rlp" } else { "der" };
    out.ev(&format!(
        "dec/{}/{}/{}",
        entry_name(entry),
        b.len(),
        match &real {
            Dec::Ok(_) => "ok",
            Dec::Err(_) => "err",
            Dec::Panic(_) => "panic",
            Dec::Unsupported => "-",
        }
    ));
    out.digest.bytes(b);
    let refclass = match &reference {
        Ok(_) => "canonical",
        Err(bad) => bad.name(),
    };
    out.state(format!("{}|{}|w{}|{}|{}", fam, entry_name(entry), bits, refclass, len_class(bits, b)));
    match (&real, &reference) {
        (Dec::Panic(p), _) => {
            let content_cls = match &reference {
                Err(Bad::Oversized) => "oversized",
                Ok(_) => "canonical",
                Err(_) => "malformed",
            };
            out.viol(
                &format!("C18/{}-decode-panics", fam),
                format!("{}:{}:{}", entry_name(entry), content_cls, p.location),
                format!("decoder unwound at {} ({}) on {} bytes {}", p.location, p.message, b.len(), hex(&b[..b.len().min(40)])),
                raw_plan(bits, entry, b),
            );
            out.viol(
                "C11/unexpected-panic",
                format!("{}-decode:{}:{}", fam, entry_name(entry), p.location),
                format!("decoder unwound at {} ({})", p.location, p.message),
                raw_plan(bits, entry, b),
            );
        }
        (Dec::Ok(v), Ok(w)) => {
            if v != w {
                out.viol(
                    &format!("C18/{}-wrong-value", fam),
                    entry_name(entry),
                    format!("decoded {:?}, the encoding denotes {:?}: {}", v, w, hex(&b[..b.len().min(40)])),
                    raw_plan(bits, entry, b),
                );
            }
        }
        (Dec::Ok(v), Err(bad)) => {
            out.viol(
                &format!("C18/{}-accepts-bad", fam),
                format!("{}:{}", entry_name(entry), bad.name()),
                format!("accepted a {} encoding as {:?}: {}", bad.name(), v, hex(&b[..b.len().min(40)])),
                raw_plan(bits, entry, b),
            );
        }
        (Dec::Err(_), Ok(_)) if matches!(entry, Entry::ReaderDev { lending: false, .. } | Entry::ReaderDev { fail_at: Some(_), .. }) => {
            // a reader that cannot lend slices, or that failed, may legitimately make every decode fail
            out.count("probe:reader-device-made-decode-fail");
        }
        (Dec::Err(e), Ok(w)) => {
            out.viol(
                &format!("C18/{}-rejects-good", fam),
                format!("{}:w{}", entry_name(entry), bits),
                format!("rejected ({}) a canonical encoding of {:?} that fits: {}", e, w, hex(&b[..b.len().min(40)])),
                raw_plan(bits, entry, b),
            );
        }
        _ => {}
    }
    real
}

// ---------------------------------------------------------------------------------------------
// encoders

fn uint_from_big<T: Encoding>(x: &BigUint, bytes: usize) -> T
where
    T::Repr: for<'a> TryFrom<&'a [u8]>,
{
    let mut be = x.to_bytes_be();
    if x.is_zero() {
        be.clear();
    }
    let mut buf = vec![0u8; bytes];
    buf[bytes - be.len()..].copy_from_slice(&be);
    let repr: T::Repr = match T::Repr::try_from(&buf[..]) {
        Ok(r) => r,
        Err(_) => unreachable!(),
    };
    T::from_be_bytes(repr)
}

pub struct EncObs {
    pub result_ok: bool,
    pub err: String,
    pub written: Vec<u8>,
    pub chunks: Vec<usize>,
    pub value_len: Option<u32>,
    pub encoded_len: Option<u32>,
    pub wrote_after_refusal: bool,
    pub panic: Option<PanicInfo>,
}

/// Real DER encoder into a SimDerWriter (`cap`) or a `SliceWriter` over a `cap`-byte buffer.
pub fn der_encode(bits: u32, x: &BigUint, cap: usize, slice_writer: bool) -> Option<EncObs> {
    with_der_type!(bits, T, {
        let v: T = uint_from_big::<T>(x, (bits / 8) as usize);
        let mut obs = EncObs { result_ok: false, err: String::new(), written: vec![], chunks: vec![], value_len: None, encoded_len: None, wrote_after_refusal: false, panic: None };
        let g = guard(|| {
            use der::EncodeValue;
            obs.value_len = v.value_len().ok().map(u32::from);
            obs.encoded_len = v.encoded_len().ok().map(u32::from);
            if slice_writer {
                let mut buf = vec![0xEEu8; cap];
                match v.encode_to_slice(&mut buf) {
                    Ok(s) => {
                        obs.result_ok = true;
                        obs.written = s.to_vec();
                    }
                    Err(e) => obs.err = e.to_string(),
                }
            } else {
                let mut w = SimDerWriter::new(cap);
                match v.encode(&mut w) {
                    Ok(()) => obs.result_ok = true,
                    Err(e) => obs.err = e.to_string(),
                }
                obs.written = w.buf;
                obs.chunks = w.chunks;
                obs.wrote_after_refusal = w.wrote_after_refusal;
            }
        });
        if let Guarded::Panic(p) = g {
            obs.panic = Some(p);
        }
        Some(obs)
    }, else { None })
}

pub fn rlp_encode(bits: u32, x: &BigUint, list_with: Option<&BigUint>) -> Option<Result<Vec<u8>, PanicInfo>> {
    with_der_type!(bits, T, {
        let v: T = uint_from_big::<T>(x, (bits / 8) as usize);
        let g = guard(|| match list_with {
            None => rlp::encode(&v).to_vec(),
            Some(y) => {
                let w: T = uint_from_big::<T>(y, (bits / 8) as usize);
                let mut s = rlp::RlpStream::new_list(2);
                s.append(&v);
                s.append(&w);
                s.out().to_vec()
            }
        });
        Some(match g {
            Guarded::Done(b) => Ok(b),
            Guarded::Panic(p) => Err(p),
            Guarded::Budget => Ok(vec![]),
        })
    }, else { None })
}

/// RLP list of n integers through `RlpStream::new_list(n)` + n appends; returns the bytes and, for decodable
/// widths, the values read back with `Rlp::val_at(i)`.
/// `route` picks one of four equivalent ways of writing the list (bounded stream, `encode_list`, `begin_list` on an
/// empty stream, unbounded list) and of reading it back (`val_at`, `as_list`, `iter` + `as_val`, `at` + `as_val`).
pub fn rlp_list_roundtrip(bits: u32, items: &[BigUint], route: u8) -> Option<Result<(Vec<u8>, Option<Vec<BigUint>>), PanicInfo>> {
    with_der_type!(bits, T, {
        let vals: Vec<T> = items.iter().map(|x| uint_from_big::<T>(x, (bits / 8) as usize)).collect();
        let g = guard(|| match route % 4 {
            0 => {
                let mut s = rlp::RlpStream::new_list(vals.len());
                for v in &vals {
                    s.append(v);
                }
                s.out().to_vec()
            }
            1 => rlp::encode_list::<T, T>(&vals).to_vec(),
            2 => {
                let mut s = rlp::RlpStream::new();
                s.begin_list(vals.len());
                for v in &vals {
                    s.append(v);
                }
                s.out().to_vec()
            }
            _ => {
                let mut s = rlp::RlpStream::new();
                s.begin_unbounded_list();
                for v in &vals {
                    s.append(v);
                }
                s.finalize_unbounded_list();
                s.out().to_vec()
            }
        });
        let bytes = match g {
            Guarded::Done(b) => b,
            Guarded::Panic(p) => return Some(Err(p)),
            Guarded::Budget => return None,
        };
        let back = with_rlp_dec_type!(bits, D, {
            let n = items.len();
            let b2 = bytes.clone();
            match guard(move || {
                let r = rlp::Rlp::new(&b2);
                match route % 4 {
                    0 => (0..n).map(|i| r.val_at::<D>(i).map(|v| val(&v))).collect::<Result<Vec<_>, _>>().ok(),
                    1 => r.as_list::<D>().ok().map(|l| l.iter().map(val).collect()),
                    2 => r.iter().map(|it| it.as_val::<D>().map(|v| val(&v))).collect::<Result<Vec<_>, _>>().ok(),
                    _ => (0..n).map(|i| r.at(i).and_then(|it| it.as_val::<D>()).map(|v| val(&v))).collect::<Result<Vec<_>, _>>().ok(),
                }
            }) {
                Guarded::Done(v) => v,
                Guarded::Panic(p) => return Some(Err(p)),
                Guarded::Budget => None,
            }
        }, else { None });
        Some(Ok((bytes, back)))
    }, else { None })
}

fn rlp_list_reference(items: &[BigUint]) -> Vec<u8> {
    let mut body = Vec::new();
    for x in items {
        body.extend(codec::rlp_encode(x));
    }
    let mut want = if body.len() < 56 {
        vec![0xc0 + body.len() as u8]
    } else {
        let lb: Vec<u8> = body.len().to_be_bytes().iter().copied().skip_while(|&v| v == 0).collect();
        let mut h = vec![0xf7 + lb.len() as u8];
        h.extend(lb);
        h
    };
    want.extend(body);
    want
}

// ---------------------------------------------------------------------------------------------
// plans

#[derive(Clone, Debug, Serialize, Deserialize)]
pub enum Plan {
    /// concrete decode (replay form)
    Raw {
        bits: u32,
        entry: Entry,
        #[serde(with = "hexbytes")]
        bytes: Vec<u8>,
    },
    /// enumerated: every content class x tag x length form x entry for one content length
    DerSweep { bits: u32, content_len: usize, body_seed: u64 },
    RlpSweep { bits: u32, content_len: usize, body_seed: u64 },
    /// put(x) -> medium faults -> get()
    Record {
        bits: u32,
        rlp: bool,
        #[serde(with = "hexbytes")]
        value_be: Vec<u8>,
        #[serde(with = "hexbytes")]
        second_be: Vec<u8>,
        nested: bool,
        faults: Vec<Fault>,
    },
    /// every truncation offset and every appended length 1..4 of the record of x
    TruncAll {
        bits: u32,
        rlp: bool,
        #[serde(with = "hexbytes")]
        value_be: Vec<u8>,
        nested: bool,
    },
    /// every writer capacity 0..=encoded_len, both writers
    Writer {
        bits: u32,
        #[serde(with = "hexbytes")]
        value_be: Vec<u8>,
        /// None: enumerate all capacities
        cap: Option<usize>,
        slice_writer: bool,
    },
}

fn big_be(b: &[u8]) -> BigUint {
    BigUint::from_bytes_be(b)
}

fn value_class(bits: u32, x: &BigUint) -> &'static str {
    let n = x.bits();
    if x.is_zero() {
        "0"
    } else if x.is_one() {
        "1"
    } else if n == bits as u64 {
        "top-bit-set"
    } else if n % 8 == 0 {
        "octet-msb-set"
    } else if n % 8 == 7 {
        "octet-0x7f-side"
    } else {
        "other"
    }
}

/// Oracle 1 + 3 for one value; returns the real encoding.
fn check_encode_der(bits: u32, x: &BigUint, out: &mut RunOut) -> Option<Vec<u8>> {
    let want = codec::der_int_encode(x);
    let obs = der_encode(bits, x, usize::MAX / 2, false)?;
    out.ev(&format!("enc/der/{}/{}", bits, obs.written.len()));
    out.digest.bytes(&obs.written);
    let plan = || serde_json::to_value(Plan::Writer { bits, value_be: x.to_bytes_be(), cap: Some(1 << 20), slice_writer: false }).ok();
    if let Some(p) = &obs.panic {
        out.viol("C11/unexpected-panic", format!("der-encode:{}", p.location), format!("encoder unwound at {}: {}", p.location, p.message), plan());
        return None;
    }
    if !obs.result_ok || obs.written != want {
        out.viol(
            "C18/der-encode-noncanonical",
            format!("w{}:{}", bits, value_class(bits, x)),
            format!("encoded {} (ok={} {}), canonical {}", hex(&obs.written[..obs.written.len().min(40)]), obs.result_ok, obs.err, hex(&want[..want.len().min(40)])),
            plan(),
        );
    }
    let content_len = codec::der_int_content(x).len() as u32;
    if obs.value_len != Some(content_len) || obs.encoded_len != Some(want.len() as u32) {
        out.viol(
            "C18/der-len",
            format!("w{}", bits),
            format!("value_len={:?} encoded_len={:?}, bytes actually needed: content {} total {}", obs.value_len, obs.encoded_len, content_len, want.len()),
            plan(),
        );
    }
    out.state(format!("enc|der|w{}|{}", bits, value_class(bits, x)));
    // the same value as a context-specific field and inside a SEQUENCE of three: the containers of the `der` crate
    // call value_len / encode_value of the integer with their own headers around it
    if let Some(Ok((imp, exp, seq, bare))) = der_encode_containers(bits, x) {
        let content = codec::der_int_content(x);
        let mut want_imp = vec![0x81u8];
        want_imp.extend(codec::der_len(content.len()));
        want_imp.extend(&content);
        let mut want_exp = vec![0xa1u8];
        want_exp.extend(codec::der_len(want.len()));
        want_exp.extend(&want);
        let mut body = want.clone();
        body.extend([0x02u8, 0x01, 0x05]);
        body.extend(&want);
        let mut want_seq = vec![0x30u8];
        want_seq.extend(codec::der_len(body.len()));
        want_seq.extend(&body);
        for (name, got, want) in [("[1] IMPLICIT", imp, want_imp), ("[1] EXPLICIT", exp, want_exp), ("SEQUENCE of 3", seq, want_seq), ("encode_value alone", bare, content.clone())] {
            out.ev(&format!("enc/der-container/{}/{}", name, bits));
            match got {
                Ok(g) if g == want => {}
                Ok(g) => out.viol("C18/der-encode-noncanonical", format!("w{}:{}:{}", bits, name, value_class(bits, x)), format!("{} of {:#x} encoded as {}, canonical {}", name, x, hex(&g[..g.len().min(40)]), hex(&want[..want.len().min(40)])), plan()),
                Err(e) => out.viol("C18/der-encode-noncanonical", format!("w{}:{}:error", bits, name), format!("{} of {:#x} failed to encode: {}", name, x, e), plan()),
            }
        }
        out.count("probe:der-container-encodings-checked");
    } else if let Some(Err(p)) = der_encode_containers(bits, x) {
        out.viol("C11/unexpected-panic", format!("der-encode-container:{}", p.location), format!("encoding inside a der container unwound at {}: {}", p.location, p.message), plan());
    }
    Some(obs.written)
}

type Enc3 = (Result<Vec<u8>, String>, Result<Vec<u8>, String>, Result<Vec<u8>, String>, Result<Vec<u8>, String>);

/// `[1] IMPLICIT x`, `[1] EXPLICIT x` and `SEQUENCE { x, 5, x }` through the `der` crate's own containers.
fn der_encode_containers(bits: u32, x: &BigUint) -> Option<Result<Enc3, PanicInfo>> {
    with_der_type!(bits, T, {
        let v: T = uint_from_big::<T>(x, (bits / 8) as usize);
        let five: T = uint_from_big::<T>(&BigUint::from(5u8), (bits / 8) as usize);
        let g = guard(|| {
            use der::Encode;
            use der::asn1::ContextSpecificRef;
            let imp = ContextSpecificRef { tag_number: der::TagNumber::new(1), tag_mode: der::TagMode::Implicit, value: &v }.to_der().map_err(|e| e.to_string());
            let exp = ContextSpecificRef { tag_number: der::TagNumber::new(1), tag_mode: der::TagMode::Explicit, value: &v }.to_der().map_err(|e| e.to_string());
            let seq = der::asn1::SequenceOf::<T, 3>::new();
            let seq = {
                let mut s = seq;
                let r = s.add(v.clone()).and_then(|_| s.add(five.clone())).and_then(|_| s.add(v.clone()));
                match r {
                    Ok(()) => s.to_der().map_err(|e| e.to_string()),
                    Err(e) => Err(e.to_string()),
                }
            };
            // the value octets alone, as a container of the caller's own would ask for them
            let bare = {
                use der::EncodeValue;
                let mut w = SimDerWriter::new(usize::MAX / 2);
                v.encode_value(&mut w).map(|_| w.buf).map_err(|e| e.to_string())
            };
            (imp, exp, seq, bare)
        });
        match g {
            Guarded::Done(t) => Some(Ok(t)),
            Guarded::Panic(p) => Some(Err(p)),
            Guarded::Budget => None,
        }
    }, else { None })
}

fn check_encode_rlp(bits: u32, x: &BigUint, out: &mut RunOut) -> Option<Vec<u8>> {
    let want = codec::rlp_encode(x);
    let got = rlp_encode(bits, x, None)?;
    let plan = || serde_json::to_value(Plan::Record { bits, rlp: true, value_be: x.to_bytes_be(), second_be: vec![], nested: false, faults: vec![] }).ok();
    match got {
        Err(p) => {
            out.viol("C11/unexpected-panic", format!("rlp-encode:{}", p.location), format!("encoder unwound at {}: {}", p.location, p.message), plan());
            None
        }
        Ok(b) => {
            out.ev(&format!("enc/rlp/{}/{}", bits, b.len()));
            out.digest.bytes(&b);
            if b != want {
                out.viol(
                    "C18/rlp-encode-noncanonical",
                    format!("w{}:{}", bits, value_class(bits, x)),
                    format!("encoded {}, canonical {}", hex(&b[..b.len().min(40)]), hex(&want[..want.len().min(40)])),
                    plan(),
                );
            }
            out.state(format!("enc|rlp|w{}|{}", bits, value_class(bits, x)));
            Some(b)
        }
    }
}

fn der_len_forms(n: usize) -> Vec<(&'static str, Vec<u8>)> {
    let mut v = vec![("minimal", codec::der_len(n))];
    if n < 0x80 {
        v.push(("long-nonminimal-81", vec![0x81, n as u8]));
    }
    if n < 0x100 {
        v.push(("long-nonminimal-82", vec![0x82, 0, n as u8]));
    } else {
        v.push(("long-nonminimal-83", vec![0x83, 0, (n >> 8) as u8, n as u8]));
    }
    v.push(("indefinite", vec![0x80]));
    v.push(("declared+1", codec::der_len(n + 1)));
    if n > 0 {
        v.push(("declared-1", codec::der_len(n - 1)));
    }
    v.push(("reserved-ff", vec![0xff]));
    v
}

fn contents(len: usize, seed: u64) -> Vec<Vec<u8>> {
    if len == 0 {
        return vec![vec![]];
    }
    let leads = [0x00u8, 0x01, 0x7f, 0x80, 0xff];
    let seconds = [0x00u8, 0x7f, 0x80, 0xff];
    let mut r = Xoshiro::new(seed);
    let mut v = Vec::new();
    for &l in &leads {
        if len == 1 {
            v.push(vec![l]);
            continue;
        }
        for &s in &seconds {
            for body in 0..3 {
                let mut c = vec![0u8; len];
                c[0] = l;
                c[1] = s;
                match body {
                    0 => {}
                    1 => c[2..].fill(0xff),
                    _ => r.fill(&mut c[2..]),
                }
                v.push(c);
                if len == 2 {
                    break;
                }
            }
        }
    }
    v
}

fn exec(plan: &Plan, out: &mut RunOut) {
    match plan {
        Plan::Raw { bits, entry, bytes } => {
            check_decode(*bits, *entry, bytes, out);
        }
        Plan::DerSweep { bits, content_len, body_seed } => {
            let bits = *bits;
            for c in contents(*content_len, *body_seed) {
                // canonical header, all tags
                for tag in [0x02u8, 0x03, 0x22, 0x82, 0x00, 0x30] {
                    let mut b = vec![tag];
                    b.extend(codec::der_len(c.len()));
                    b.extend(&c);
                    if tag != 0x02 {
                        out.count("fault:der-wrong-tag");
                    }
                    check_decode(bits, Entry::FromDer, &b, out);
                }
                // the same TLV through the simulator-owned reader device
                {
                    let mut b = vec![0x02];
                    b.extend(codec::der_len(c.len()));
                    b.extend(&c);
                    check_decode(bits, Entry::ReaderDev { lending: true, fail_at: None }, &b, out);
                    out.count("fault:reader-non-lending");
                    check_decode(bits, Entry::ReaderDev { lending: false, fail_at: None }, &b, out);
                    for k in 0..3usize {
                        out.count("fault:reader-read-fault-at-k(configured)");
                        check_decode(bits, Entry::ReaderDev { lending: true, fail_at: Some(k) }, &b, out);
                    }
                }
                // INTEGER with every length form
                for (name, lf) in der_len_forms(c.len()) {
                    if name == "minimal" {
                        continue;
                    }
                    let mut b = vec![0x02];
                    b.extend(lf);
                    b.extend(&c);
                    out.count(&format!("fault:der-length-{}", name));
                    check_decode(bits, Entry::FromDer, &b, out);
                }
                // nested in a SEQUENCE, followed by a second integer (reader position matters)
                let mut first = vec![0x02];
                first.extend(codec::der_len(c.len()));
                first.extend(&c);
                for second in [vec![0x02u8, 0x01, 0x05], vec![0x02, 0x02, 0x00, 0x80], first.clone()] {
                    let mut body = first.clone();
                    body.extend(&second);
                    let mut b = vec![0x30];
                    b.extend(codec::der_len(body.len()));
                    b.extend(&body);
                    check_decode(bits, Entry::Seq2, &b, out);
                    // second first
                    let mut body2 = second.clone();
                    body2.extend(&first);
                    let mut b2 = vec![0x30];
                    b2.extend(codec::der_len(body2.len()));
                    b2.extend(&body2);
                    check_decode(bits, Entry::Seq2, &b2, out);
                }
                // the same content as a context-specific field: [1] IMPLICIT (primitive tag 81; 80 = another field,
                // a1 = constructed form of the same number, 82 = a later field) and [1] EXPLICIT (a1 around the TLV)
                for tag in [0x81u8, 0x80, 0xa1, 0x82] {
                    let mut b = vec![tag];
                    b.extend(codec::der_len(c.len()));
                    b.extend(&c);
                    check_decode(bits, Entry::CtxImplicit, &b, out);
                }
                for (tag, extra) in [(0xa1u8, 0usize), (0x81, 0), (0xa1, 1)] {
                    // extra = 1: the outer length claims one octet more than the INTEGER inside has
                    let mut b = vec![tag];
                    b.extend(codec::der_len(first.len() + extra));
                    b.extend(&first);
                    check_decode(bits, Entry::CtxExplicit, &b, out);
                }
                // a longer SEQUENCE: this integer first, in the middle and last among small ones
                for k in [3u8, 6] {
                    for pos in [0usize, (k / 2) as usize, k as usize - 1] {
                        let mut body = Vec::new();
                        for i in 0..k as usize {
                            if i == pos {
                                body.extend(&first);
                            } else {
                                body.extend([0x02u8, 0x01, i as u8 + 1]);
                            }
                        }
                        let mut b = vec![0x30];
                        b.extend(codec::der_len(body.len()));
                        b.extend(&body);
                        check_decode(bits, Entry::SeqN(k), &b, out);
                    }
                }
                // six copies of this integer in a row
                {
                    let mut body = Vec::new();
                    for _ in 0..6 {
                        body.extend(&first);
                    }
                    let mut b = vec![0x30];
                    b.extend(codec::der_len(body.len()));
                    b.extend(&body);
                    check_decode(bits, Entry::SeqN(6), &b, out);
                }
                check_decode(bits, Entry::AnyRef(0x02), &c, out);
                check_decode(bits, Entry::AnyRef(0x03), &c, out);
                check_decode(bits, Entry::UintRef, &c, out);
            }
        }
        Plan::RlpSweep { bits, content_len, body_seed } => {
            let bits = *bits;
            for c in contents(*content_len, *body_seed) {
                let n = c.len();
                let mut forms: Vec<(&str, Vec<u8>)> = Vec::new();
                // canonical-shaped header for this content
                let mut canon = Vec::new();
                if n < 56 {
                    canon.push(0x80 + n as u8);
                } else {
                    let lb: Vec<u8> = n.to_be_bytes().iter().copied().skip_while(|&b| b == 0).collect();
                    canon.push(0xb7 + lb.len() as u8);
                    canon.extend(lb);
                }
                forms.push(("string-header", canon.clone()));
                if n == 1 {
                    forms.push(("bare-byte", vec![]));
                }
                // long form where the short one would do / zero-prefixed length
                forms.push(("long-form", vec![0xb8, n as u8]));
                forms.push(("long-form-zero-prefixed", vec![0xb9, 0, n as u8]));
                // list header
                if n < 56 {
                    forms.push(("list-header", vec![0xc0 + n as u8]));
                }
                // declared length off by one
                if n + 1 < 56 {
                    forms.push(("declared+1", vec![0x80 + n as u8 + 1]));
                }
                if n >= 1 && n < 56 {
                    forms.push(("declared-1", vec![0x80 + n as u8 - 1]));
                }
                for (name, h) in forms {
                    let mut b = h.clone();
                    b.extend(&c);
                    if name != "string-header" && name != "bare-byte" {
                        out.count(&format!("fault:rlp-{}", name));
                    }
                    check_decode(bits, Entry::Rlp, &b, out);
                    // the same item followed by stale bytes
                    let mut t = b.clone();
                    t.extend([0x05, 0x06]);
                    check_decode(bits, Entry::Rlp, &t, out);
                    // inside a two-element list
                    let mut body = b.clone();
                    body.push(0x07);
                    if body.len() < 56 {
                        let mut l = vec![0xc0 + body.len() as u8];
                        l.extend(&body);
                        check_decode(bits, Entry::RlpList2, &l, out);
                    }
                }
            }
        }
        Plan::Record { bits, rlp, value_be, second_be, nested, faults } => {
            let (bits, x, y) = (*bits, big_be(value_be), big_be(second_be));
            let enc = if *rlp {
                if *nested {
                    match rlp_encode(bits, &x, Some(&y)) {
                        Some(Ok(b)) => {
                            // oracle 1 for the list route (RlpStream::new_list(2) + append x2): canonical list of canonical items
                            let mut body = codec::rlp_encode(&x);
                            body.extend(codec::rlp_encode(&y));
                            let mut want = if body.len() < 56 {
                                vec![0xc0 + body.len() as u8]
                            } else {
                                let lb: Vec<u8> = body.len().to_be_bytes().iter().copied().skip_while(|&v| v == 0).collect();
                                let mut h = vec![0xf7 + lb.len() as u8];
                                h.extend(lb);
                                h
                            };
                            want.extend(body);
                            out.ev(&format!("enc/rlp-list/{}/{}", bits, b.len()));
                            if b != want {
                                out.viol(
                                    "C18/rlp-encode-noncanonical",
                                    format!("w{}:list2:{}+{}", bits, value_class(bits, &x), value_class(bits, &y)),
                                    format!("list of ({:#x}, {:#x}) encoded as {}, canonical {}", x, y, hex(&b[..b.len().min(40)]), hex(&want[..want.len().min(40)])),
                                    serde_json::to_value(Plan::Record { bits, rlp: true, value_be: x.to_bytes_be(), second_be: y.to_bytes_be(), nested: true, faults: vec![] }).ok(),
                                );
                            }
                            // lists of three and four integers, with a zero at a non-final position
                            let route0 = (x.iter_u64_digits().next().unwrap_or(0) % 4) as u8;
                            for (k, items) in [vec![x.clone(), BigUint::zero(), y.clone()], vec![BigUint::zero(), y.clone(), x.clone(), BigUint::zero()]].into_iter().enumerate() {
                                let route = route0 + k as u8;
                                out.count(&format!("probe:rlp-list-route-{}", route % 4));
                                match rlp_list_roundtrip(bits, &items, route) {
                                    Some(Ok((got, back))) => {
                                        let want = rlp_list_reference(&items);
                                        out.ev(&format!("enc/rlp-list{}/{}/{}", items.len(), bits, got.len()));
                                        if got != want {
                                            out.viol(
                                                "C18/rlp-encode-noncanonical",
                                                format!("w{}:list{}:route{}", bits, items.len(), route % 4),
                                                format!("list {:?} encoded as {}, canonical {}", items, hex(&got[..got.len().min(40)]), hex(&want[..want.len().min(40)])),
                                                None,
                                            );
                                        } else if let Some(back) = back {
                                            if back != items {
                                                out.viol("C18/rlp-wrong-value", format!("rlp-list{}:read-route{}", items.len(), route % 4), format!("list {:?} read back as {:?}", items, back), None);
                                            }
                                        } else if RLP_DEC_WIDTHS.contains(&bits) {
                                            out.viol("C18/rlp-rejects-good", format!("rlp-list{}:read-route{}:w{}", items.len(), route % 4, bits), format!("canonical list {:?} could not be read back", items), None);
                                        }
                                        out.count("probe:rlp-list-of-3-and-4");
                                    }
                                    Some(Err(p)) => {
                                        out.viol("C11/unexpected-panic", format!("rlp-list:{}", p.location), format!("list of {} integers: {}", items.len(), p.message), None);
                                        out.viol("C18/rlp-encode-noncanonical", format!("w{}:list{}:panic", bits, items.len()), format!("encoding a list of {} integers panicked at {}: {}", items.len(), p.location, p.message), None);
                                    }
                                    None => {}
                                }
                            }
                            Some(b)
                        }
                        Some(Err(p)) => {
                            out.viol("C11/unexpected-panic", format!("rlp-encode:{}", p.location), p.message.clone(), None);
                            None
                        }
                        None => None,
                    }
                } else {
                    check_encode_rlp(bits, &x, out)
                }
            } else {
                let a = check_encode_der(bits, &x, out);
                if *nested {
                    let b = check_encode_der(bits, &y, out);
                    match (a, b) {
                        (Some(a), Some(b)) => {
                            let mut body = a;
                            body.extend(b);
                            let mut s = vec![0x30];
                            s.extend(codec::der_len(body.len()));
                            s.extend(body);
                            Some(s)
                        }
                        _ => None,
                    }
                } else {
                    a
                }
            };
            let Some(mut rec) = enc else { return };
            let mut fired = 0;
            for f in faults {
                if f.apply(&mut rec) {
                    fired += 1;
                    out.count(&format!("fault:medium-{}", f.kind()));
                }
            }
            let entry = match (*rlp, *nested) {
                (false, false) => Entry::FromDer,
                (false, true) => Entry::Seq2,
                (true, false) => Entry::Rlp,
                (true, true) => Entry::RlpList2,
            };
            let real = check_decode(bits, entry, &rec, out);
            if fired == 0 {
                // oracle 3: round trip
                let want = if *nested { vec![x.clone(), y.clone()] } else { vec![x.clone()] };
                if let Dec::Ok(v) = &real {
                    if *v != want {
                        out.viol(
                            &format!("C18/{}-wrong-value", if *rlp { "rlp" } else { "der" }),
                            format!("{}:round-trip", entry_name(entry)),
                            format!("decode(encode({:?})) = {:?}", want, v),
                            None,
                        );
                    }
                }
                out.count("probe:fault-free-round-trip");
            } else if matches!(real, Dec::Ok(_)) {
                out.count("probe:faulted-record-still-accepted-as-canonical");
            }
        }
        Plan::TruncAll { bits, rlp, value_be, nested } => {
            let (bits, x) = (*bits, big_be(value_be));
            let five = BigUint::from(5u8);
            let rec = if *rlp {
                match rlp_encode(bits, &x, if *nested { Some(&five) } else { None }) {
                    Some(Ok(b)) => b,
                    _ => return,
                }
            } else if *nested {
                codec::der_seq2_encode(&x, &five)
            } else {
                match check_encode_der(bits, &x, out) {
                    Some(b) => b,
                    None => return,
                }
            };
            let entry = match (*rlp, *nested) {
                (false, false) => Entry::FromDer,
                (false, true) => Entry::Seq2,
                (true, false) => Entry::Rlp,
                (true, true) => Entry::RlpList2,
            };
            for k in 0..rec.len() {
                out.count("fault:medium-truncate");
                check_decode(bits, entry, &rec[..k], out);
            }
            for extra in 1..=4usize {
                let mut b = rec.clone();
                b.extend(std::iter::repeat_n(0u8, extra));
                out.count("fault:medium-append");
                check_decode(bits, entry, &b, out);
            }
            // sign-pad insertion / removal at the head of the content
            if !*rlp && !*nested {
                let c = codec::der_int_content(&x);
                let mut padded = vec![0u8];
                padded.extend(&c);
                let mut b = vec![0x02];
                b.extend(codec::der_len(padded.len()));
                b.extend(&padded);
                out.count("fault:der-sign-pad-inserted");
                check_decode(bits, entry, &b, out);
                if c.len() > 1 && c[0] == 0 {
                    let mut b = vec![0x02];
                    b.extend(codec::der_len(c.len() - 1));
                    b.extend(&c[1..]);
                    out.count("fault:der-sign-pad-removed");
                    check_decode(bits, entry, &b, out);
                }
            }
            out.count("probe:all-truncation-offsets-enumerated");
        }
        Plan::Writer { bits, value_be, cap, slice_writer } => {
            let (bits, x) = (*bits, big_be(value_be));
            let want = codec::der_int_encode(&x);
            let caps: Vec<usize> = match cap {
                Some(c) => vec![*c],
                None => (0..=want.len() + 1).collect(),
            };
            for c in caps {
                for sw in [false, true] {
                    if cap.is_some() && sw != *slice_writer {
                        continue;
                    }
                    let Some(obs) = der_encode(bits, &x, c, sw) else { return };
                    out.ev(&format!("wr/{}/{}/{}/{}", bits, c, sw, obs.result_ok));
                    let wk = if sw { "SliceWriter" } else { "SimDerWriter" };
                    let plan = || serde_json::to_value(Plan::Writer { bits, value_be: value_be.clone(), cap: Some(c), slice_writer: sw }).ok();
                    if let Some(p) = &obs.panic {
                        out.viol("C18/writer-prefix", format!("{}:panic", wk), format!("encoder unwound at {}: {}", p.location, p.message), plan());
                        out.viol("C11/unexpected-panic", format!("der-encode:{}", p.location), p.message.clone(), plan());
                        continue;
                    }
                    if c < want.len() {
                        out.count("fault:writer-full");
                        if obs.result_ok {
                            out.viol(
                                "C18/writer-prefix",
                                format!("{}:error-swallowed", wk),
                                format!("writer capacity {} < {} needed but encode returned Ok", c, want.len()),
                                plan(),
                            );
                        }
                        if !sw && !want.starts_with(&obs.written) {
                            out.viol(
                                "C18/writer-prefix",
                                format!("{}:garbage", wk),
                                format!("bytes accepted before the refusal {} are not a prefix of the canonical encoding {}", hex(&obs.written), hex(&want[..want.len().min(40)])),
                                plan(),
                            );
                        }
                    } else if !obs.result_ok || obs.written != want {
                        out.viol(
                            "C18/der-encode-noncanonical",
                            format!("w{}:{}:cap>=len", bits, value_class(bits, &x)),
                            format!("capacity {} suffices but encode gave ok={} {} bytes {}", c, obs.result_ok, obs.err, hex(&obs.written[..obs.written.len().min(40)])),
                            plan(),
                        );
                    }
                    out.state(format!("wr|{}|w{}|{}|{}", wk, bits, if c < want.len() { "short" } else { "fits" }, value_class(bits, &x)));
                }
            }
            out.count("probe:all-writer-capacities-enumerated");
        }
    }
}

// ---------------------------------------------------------------------------------------------
// generation

fn gen_value(r: &mut Xoshiro, bits: u32) -> BigUint {
    let bytes = (bits / 8) as usize;
    match r.below(10) {
        0 => BigUint::zero(),
        1 => BigUint::one(),
        2 => (BigUint::one() << bits as usize) - 1u32,
        3 => {
            // 0x7f / 0x80 boundary in the top octet, at a random octet length
            let n = r.range(1, bytes as u64) as usize;
            let top = *r.pick(&[0x7fu8, 0x80, 0x81, 0xff, 0x01]);
            let mut b = vec![0u8; n];
            b[0] = top;
            if r.chance(1, 2) {
                r.fill(&mut b[1..]);
            }
            BigUint::from_bytes_be(&b)
        }
        4 => BigUint::one() << r.below(bits as u64) as usize,
        5 => (BigUint::one() << r.range(1, bits as u64) as usize) - 1u32,
        6 => BigUint::from(r.below(300)),
        _ => {
            let n = r.range(1, bytes as u64) as usize;
            BigUint::from_bytes_be(&r.bytes(n))
        }
    }
}

fn gen_fault(r: &mut Xoshiro, len: usize) -> Fault {
    let len = len.max(1);
    match r.below(12) {
        0 => Fault::Truncate(r.below(len as u64) as usize),
        1 => Fault::ZeroTail(r.range(1, len as u64) as usize),
        2 | 3 => Fault::FlipBit(r.below(8 * len as u64) as usize),
        4 => Fault::DropByte(r.below(len as u64) as usize),
        5 => Fault::DupByte(r.below(len as u64) as usize),
        6 => {
            let n = r.range(1, 4) as usize;
            Fault::Append(r.bytes(n))
        }
        7 => Fault::Prepend(*r.pick(&[0x00u8, 0xff, 0x02, 0x80])),
        8 => Fault::AddAt(r.below(4.min(len as u64)) as usize, *r.pick(&[1i16, -1, 2, -2, 0x80])),
        9 => Fault::SetAt(r.below(4.min(len as u64)) as usize, *r.pick(&[0x00u8, 0x80, 0x81, 0xff, 0x02, 0x30])),
        10 => Fault::InsertAt(r.below(4.min(len as u64) + 1) as usize, *r.pick(&[0x00u8, 0xff, 0x80])),
        _ => Fault::FlipBit(r.below(24.min(8 * len as u64)) as usize),
    }
}

pub struct Der;
pub struct Rlp;

fn sweep_list(widths: &[u32]) -> Vec<(u32, usize)> {
    let mut v = Vec::new();
    for &w in widths {
        for l in 0..=(w / 8) as usize + 4 {
            v.push((w, l));
        }
    }
    v
}

/// widths for the seeded part of the batch (the structural sweep always covers all 20 widths)
fn der_widths(t: Tier) -> &'static [u32] {
    match t {
        Tier::Quick => &DER_QUICK,
        Tier::Thorough => &DER_WIDTHS,
    }
}

impl TypedScenario for Der {
    type Plan = Plan;
    fn name(&self) -> &'static str {
        "c18-der"
    }
    fn chunk(&self) -> u64 {
        8
    }
    fn n_runs(&self, tier: Tier) -> u64 {
        sweep_list(&DER_WIDTHS).len() as u64
            + match tier {
                Tier::Quick => 30_000,
                Tier::Thorough => 12_000_000,
            }
    }
    fn generate(&self, seed: u64, tier: Tier, i: u64) -> Plan {
        let sw = sweep_list(&DER_WIDTHS);
        let mut r = Xoshiro::new(mix(seed, 0x18, i));
        if (i as usize) < sw.len() {
            let (bits, l) = sw[i as usize];
            return Plan::DerSweep { bits, content_len: l, body_seed: r.next() };
        }
        let bits = if r.chance(1, 4) { *r.pick(&DER_WIDTHS) } else { *r.pick(der_widths(tier)) };
        let x = gen_value(&mut r, bits);
        match r.below(10) {
            0 => Plan::TruncAll { bits, rlp: false, value_be: x.to_bytes_be(), nested: r.chance(1, 3) },
            1 => Plan::Writer { bits, value_be: x.to_bytes_be(), cap: None, slice_writer: false },
            _ => {
                let y = gen_value(&mut r, bits);
                let len = codec::der_int_encode(&x).len();
                let nf = *r.pick(&[0usize, 0, 1, 1, 1, 2, 3]);
                let faults = (0..nf).map(|_| gen_fault(&mut r, len)).collect();
                Plan::Record { bits, rlp: false, value_be: x.to_bytes_be(), second_be: y.to_bytes_be(), nested: r.chance(1, 3), faults }
            }
        }
    }
    fn exec(&self, plan: &Plan, out: &mut RunOut) {
        exec(plan, out);
    }
    fn shrink(&self, p: &Plan) -> Vec<Plan> {
        shrink(p)
    }
}

impl TypedScenario for Rlp {
    type Plan = Plan;
    fn name(&self) -> &'static str {
        "c18-rlp"
    }
    fn chunk(&self) -> u64 {
        16
    }
    fn n_runs(&self, tier: Tier) -> u64 {
        sweep_list(&RLP_DEC_WIDTHS).len() as u64
            + match tier {
                Tier::Quick => 30_000,
                Tier::Thorough => 12_000_000,
            }
    }
    fn generate(&self, seed: u64, tier: Tier, i: u64) -> Plan {
        let sw = sweep_list(&RLP_DEC_WIDTHS);
        let mut r = Xoshiro::new(mix(seed, 0x1817, i));
        if (i as usize) < sw.len() {
            let (bits, l) = sw[i as usize];
            return Plan::RlpSweep { bits, content_len: l, body_seed: r.next() };
        }
        // encoders exist for every width; decoders for U64..U256 (Repr: Default)
        let bits = if r.chance(2, 3) { *r.pick(&RLP_DEC_WIDTHS) } else { *r.pick(der_widths(tier)) };
        let x = gen_value(&mut r, bits);
        match r.below(10) {
            0 => Plan::TruncAll { bits, rlp: true, value_be: x.to_bytes_be(), nested: r.chance(1, 3) },
            _ => {
                let y = gen_value(&mut r, bits);
                let len = codec::rlp_encode(&x).len();
                let nf = *r.pick(&[0usize, 0, 1, 1, 1, 2, 3]);
                let faults = (0..nf).map(|_| gen_fault(&mut r, len)).collect();
                Plan::Record { bits, rlp: true, value_be: x.to_bytes_be(), second_be: y.to_bytes_be(), nested: r.chance(1, 3), faults }
            }
        }
    }
    fn exec(&self, plan: &Plan, out: &mut RunOut) {
        exec(plan, out);
    }
    fn shrink(&self, p: &Plan) -> Vec<Plan> {
        shrink(p)
    }
}

fn shrink(p: &Plan) -> Vec<Plan> {
    let mut v = Vec::new();
    match p {
        Plan::Raw { bits, entry, bytes } => {
            // smaller width first (same bytes), then byte-level simplification
            for &w in DER_WIDTHS.iter().filter(|&&w| w < *bits) {
                v.push(Plan::Raw { bits: w, entry: *entry, bytes: bytes.clone() });
            }
            for i in (0..bytes.len()).rev() {
                if bytes[i] != 0 && i >= 2 {
                    let mut b = bytes.clone();
                    b[i] = 0;
                    v.push(Plan::Raw { bits: *bits, entry: *entry, bytes: b });
                }
            }
        }
        Plan::Record { bits, rlp, value_be, second_be, nested, faults } => {
            for i in 0..faults.len() {
                let mut f = faults.clone();
                f.remove(i);
                v.push(Plan::Record { bits: *bits, rlp: *rlp, value_be: value_be.clone(), second_be: second_be.clone(), nested: *nested, faults: f });
            }
            if *nested {
                v.push(Plan::Record { bits: *bits, rlp: *rlp, value_be: value_be.clone(), second_be: vec![], nested: false, faults: faults.clone() });
            }
            if value_be.len() > 1 {
                v.push(Plan::Record { bits: *bits, rlp: *rlp, value_be: value_be[1..].to_vec(), second_be: second_be.clone(), nested: *nested, faults: faults.clone() });
            }
        }
        _ => {}
    }
    v
}
