//! Strict reference codecs written from X.690 (8.3, 10.1) and the RLP specification.
//! They state exactly "the unique integer denoted by a canonical encoding that fits" — nothing stricter.

use num_bigint::BigUint;
use num_traits::Zero;

fn magnitude(x: &BigUint) -> Vec<u8> {
    if x.is_zero() { vec![] } else { x.to_bytes_be() }
}

// ------------------------------------------------------------------------------------------- DER

pub fn der_len(n: usize) -> Vec<u8> {
    if n < 0x80 {
        vec![n as u8]
    } else if n < 0x100 {
        vec![0x81, n as u8]
    } else if n < 0x1_0000 {
        vec![0x82, (n >> 8) as u8, n as u8]
    } else {
        vec![0x83, (n >> 16) as u8, (n >> 8) as u8, n as u8]
    }
}

pub fn der_int_content(x: &BigUint) -> Vec<u8> {
    let mut m = magnitude(x);
    if m.is_empty() {
        return vec![0];
    }
    if m[0] & 0x80 != 0 {
        m.insert(0, 0);
    }
    m
}

pub fn der_int_encode(x: &BigUint) -> Vec<u8> {
    let c = der_int_content(x);
    let mut out = vec![0x02];
    out.extend(der_len(c.len()));
    out.extend(c);
    out
}

#[derive(Clone, Copy, Debug, PartialEq, Eq)]
pub enum Bad {
    Empty,
    Tag,
    Length,      // malformed / non-minimal / indefinite length
    Truncated,   // declared length exceeds what is there
    Trailing,    // bytes after the value (top-level)
    EmptyContent,
    Negative,
    NonMinimal,  // superfluous leading zero octet
    Oversized,   // magnitude does not fit the target
}

impl Bad {
    pub fn name(self) -> &'static str {
        match self {
            Bad::Empty => "empty",
            Bad::Tag => "bad-tag",
            Bad::Length => "bad-length-field",
            Bad::Truncated => "truncated",
            Bad::Trailing => "trailing",
            Bad::EmptyContent => "empty-content",
            Bad::Negative => "negative",
            Bad::NonMinimal => "non-minimal",
            Bad::Oversized => "oversized",
        }
    }
}

/// Parse a DER header with the expected tag at the start of `b`: returns (header_len, content_len).
pub fn der_header(b: &[u8], tag: u8) -> Result<(usize, usize), Bad> {
    if b.is_empty() {
        return Err(Bad::Empty);
    }
    if b[0] != tag {
        return Err(Bad::Tag);
    }
    let Some(&l0) = b.get(1) else { return Err(Bad::Truncated) };
    if l0 < 0x80 {
        return Ok((2, l0 as usize));
    }
    let k = (l0 & 0x7f) as usize;
    if k == 0 || k > 4 {
        return Err(Bad::Length); // indefinite or absurd
    }
    if b.len() < 2 + k {
        return Err(Bad::Truncated);
    }
    let mut n = 0usize;
    for &x in &b[2..2 + k] {
        n = (n << 8) | x as usize;
    }
    // minimal: no leading zero length octet, and long form only when needed
    if b[2] == 0 || n < 0x80 {
        return Err(Bad::Length);
    }
    Ok((2 + k, n))
}

/// The canonical non-negative INTEGER content `c` that fits `max_bytes` magnitude octets.
pub fn der_int_content_decode(c: &[u8], max_bytes: usize) -> Result<BigUint, Bad> {
    if c.is_empty() {
        return Err(Bad::EmptyContent);
    }
    if c[0] & 0x80 != 0 {
        return Err(Bad::Negative);
    }
    if c[0] == 0 && c.len() > 1 && c[1] & 0x80 == 0 {
        return Err(Bad::NonMinimal);
    }
    let mag = if c[0] == 0 { &c[1..] } else { c };
    if mag.len() > max_bytes {
        return Err(Bad::Oversized);
    }
    Ok(BigUint::from_bytes_be(mag))
}

/// One INTEGER TLV at the start of `b`: (value, bytes consumed).
pub fn der_int_tlv(b: &[u8], max_bytes: usize) -> Result<(BigUint, usize), Bad> {
    let (h, n) = der_header(b, 0x02)?;
    if b.len() < h + n {
        return Err(Bad::Truncated);
    }
    let v = der_int_content_decode(&b[h..h + n], max_bytes)?;
    Ok((v, h + n))
}

/// Top-level `from_der`: exactly one INTEGER, no trailing data.
pub fn der_int_decode(b: &[u8], max_bytes: usize) -> Result<BigUint, Bad> {
    let (v, used) = der_int_tlv(b, max_bytes)?;
    if used != b.len() {
        return Err(Bad::Trailing);
    }
    Ok(v)
}

/// `SEQUENCE { INTEGER, INTEGER }`, nothing else.
pub fn der_seq2_decode(b: &[u8], max_bytes: usize) -> Result<(BigUint, BigUint), Bad> {
    let (h, n) = der_header(b, 0x30)?;
    if b.len() < h + n {
        return Err(Bad::Truncated);
    }
    if b.len() != h + n {
        return Err(Bad::Trailing);
    }
    let body = &b[h..];
    let (a, ua) = der_int_tlv(body, max_bytes)?;
    let (c, uc) = der_int_tlv(&body[ua..], max_bytes)?;
    if ua + uc != body.len() {
        return Err(Bad::Trailing);
    }
    Ok((a, c))
}

pub fn der_seq2_encode(a: &BigUint, b: &BigUint) -> Vec<u8> {
    let mut body = der_int_encode(a);
    body.extend(der_int_encode(b));
    let mut out = vec![0x30];
    out.extend(der_len(body.len()));
    out.extend(body);
    out
}

// ------------------------------------------------------------------------------------------- RLP

pub fn rlp_encode(x: &BigUint) -> Vec<u8> {
    let m = magnitude(x);
    if m.len() == 1 && m[0] < 0x80 {
        return m;
    }
    let mut out = Vec::new();
    if m.len() < 56 {
        out.push(0x80 + m.len() as u8);
    } else {
        let l = m.len();
        let lb: Vec<u8> = l.to_be_bytes().iter().copied().skip_while(|&b| b == 0).collect();
        out.push(0xb7 + lb.len() as u8);
        out.extend(lb);
    }
    out.extend(m);
    out
}

/// First item of `b` per RLP framing; must be a canonical string item holding a canonical integer
/// that fits. Trailing bytes after the first item are the framing layer's business (allowed).
pub fn rlp_decode_first(b: &[u8], max_bytes: usize) -> Result<(BigUint, usize), Bad> {
    let Some(&p) = b.first() else { return Err(Bad::Empty) };
    let (off, len) = if p < 0x80 {
        (0usize, 1usize)
    } else if p <= 0xb7 {
        let len = (p - 0x80) as usize;
        if b.len() < 1 + len {
            return Err(Bad::Truncated);
        }
        if len == 1 && b[1] < 0x80 {
            return Err(Bad::Length); // should have been the single-byte form
        }
        (1, len)
    } else if p <= 0xbf {
        let ll = (p - 0xb7) as usize;
        if b.len() < 1 + ll {
            return Err(Bad::Truncated);
        }
        if b[1] == 0 {
            return Err(Bad::Length);
        }
        let mut len = 0usize;
        for &x in &b[1..1 + ll] {
            len = len.checked_mul(256).and_then(|v| v.checked_add(x as usize)).ok_or(Bad::Length)?;
        }
        if len < 56 {
            return Err(Bad::Length);
        }
        // (a declared length near usize::MAX must not wrap the bound computation)
        if len > b.len() || b.len() < 1 + ll + len {
            return Err(Bad::Truncated);
        }
        (1 + ll, len)
    } else {
        return Err(Bad::Tag); // a list
    };
    let c = &b[off..off + len];
    if c.first() == Some(&0) {
        return Err(Bad::NonMinimal);
    }
    if c.len() > max_bytes {
        return Err(Bad::Oversized);
    }
    Ok((BigUint::from_bytes_be(c), off + len))
}
