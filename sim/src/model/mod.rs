pub mod codec;
