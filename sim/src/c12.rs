//! C12 — NonZero / Odd can never hold an invalid value.
//!
//! The simulated system is a pool of wrapper values. Events add values through every public producer
//! (two of which sit on seams: RNG and deserializer, both fault-injected), derive new ones from pool
//! members, and feed members to consumers. After every event every pool member must be valid.

use crate::core::{RunOut, Tier, TypedScenario};
use crate::dev::medium::{Fault, hex, hexbytes};
use crate::dev::rng::{Seg, SimRng, SimTryRng, Tape, TapePlan};
use crate::dev::serde_fmt::{Delivery, SimDe, Tok};
use crate::monitor::{Guarded, PanicInfo, guard};
use crate::prng::{Xoshiro, mix};
use crate::util::{hexw, is_odd, is_zero};
use core::num::{NonZeroU8, NonZeroU16, NonZeroU32, NonZeroU64, NonZeroU128};
use crypto_bigint::modular::{BoxedMontyParams, MontyParams};
use crypto_bigint::{ArrayEncoding, BoxedUint, Encoding, Int, Limb, NonZero, Odd, Random, Uint};
use serde::{Deserialize, Serialize};
use subtle::{Choice, ConditionallySelectable, CtOption};

#[derive(Clone, Debug)]
pub enum W {
    NzLimb(NonZero<Limb>),
    OddLimb(Odd<Limb>),
    NzU1(NonZero<Uint<1>>),
    NzU2(NonZero<Uint<2>>),
    NzU4(NonZero<Uint<4>>),
    OddU1(Odd<Uint<1>>),
    OddU2(Odd<Uint<2>>),
    OddU4(Odd<Uint<4>>),
    NzI2(NonZero<Int<2>>),
    OddI2(Odd<Int<2>>),
    NzB(NonZero<BoxedUint>),
    OddB(Odd<BoxedUint>),
}

impl W {
    pub fn words(&self) -> Vec<u64> {
        match self {
            W::NzLimb(x) => vec![x.as_ref().0],
            W::OddLimb(x) => vec![x.as_ref().0],
            W::NzU1(x) => x.as_ref().to_words().to_vec(),
            W::NzU2(x) => x.as_ref().to_words().to_vec(),
            W::NzU4(x) => x.as_ref().to_words().to_vec(),
            W::OddU1(x) => x.as_ref().to_words().to_vec(),
            W::OddU2(x) => x.as_ref().to_words().to_vec(),
            W::OddU4(x) => x.as_ref().to_words().to_vec(),
            W::NzI2(x) => x.as_ref().to_words().to_vec(),
            W::OddI2(x) => x.as_ref().to_words().to_vec(),
            W::NzB(x) => x.as_ref().to_words().to_vec(),
            W::OddB(x) => x.as_ref().to_words().to_vec(),
        }
    }
    pub fn is_odd_wrapper(&self) -> bool {
        matches!(self, W::OddLimb(_) | W::OddU1(_) | W::OddU2(_) | W::OddU4(_) | W::OddI2(_) | W::OddB(_))
    }
    pub fn valid(&self) -> bool {
        let w = self.words();
        if self.is_odd_wrapper() { is_odd(&w) } else { !is_zero(&w) }
    }
    pub fn ty(&self) -> &'static str {
        match self {
            W::NzLimb(_) => "NonZero<Limb>",
            W::OddLimb(_) => "Odd<Limb>",
            W::NzU1(_) => "NonZero<Uint<1>>",
            W::NzU2(_) => "NonZero<Uint<2>>",
            W::NzU4(_) => "NonZero<Uint<4>>",
            W::OddU1(_) => "Odd<Uint<1>>",
            W::OddU2(_) => "Odd<Uint<2>>",
            W::OddU4(_) => "Odd<Uint<4>>",
            W::NzI2(_) => "NonZero<Int<2>>",
            W::OddI2(_) => "Odd<Int<2>>",
            W::NzB(_) => "NonZero<BoxedUint>",
            W::OddB(_) => "Odd<BoxedUint>",
        }
    }
}

struct S;
trait Slot<const N: usize> {
    fn nz(x: NonZero<Uint<N>>) -> W;
    fn odd(x: Odd<Uint<N>>) -> W;
    fn as_nz(w: &W) -> Option<NonZero<Uint<N>>>;
    fn as_odd(w: &W) -> Option<Odd<Uint<N>>>;
}
macro_rules! slot {
    ($n:expr, $nz:ident, $odd:ident) => {
        impl Slot<$n> for S {
            fn nz(x: NonZero<Uint<$n>>) -> W {
                W::$nz(x)
            }
            fn odd(x: Odd<Uint<$n>>) -> W {
                W::$odd(x)
            }
            fn as_nz(w: &W) -> Option<NonZero<Uint<$n>>> {
                if let W::$nz(x) = w { Some(*x) } else { None }
            }
            fn as_odd(w: &W) -> Option<Odd<Uint<$n>>> {
                if let W::$odd(x) = w { Some(*x) } else { None }
            }
        }
    };
}
slot!(1, NzU1, OddU1);
slot!(2, NzU2, OddU2);
slot!(4, NzU4, OddU4);

#[derive(Clone, Copy, Debug, Serialize, Deserialize, PartialEq, Eq)]
pub enum Carrier {
    Limb,
    U1,
    U2,
    U4,
    I2,
    Boxed,
}

#[derive(Clone, Copy, Debug, Serialize, Deserialize, PartialEq, Eq)]
pub enum Wr {
    Nz,
    Odd,
}

#[derive(Clone, Copy, Debug, Serialize, Deserialize, PartialEq, Eq)]
pub enum How {
    New,
    /// `to_nz()` / `to_odd()` and then `Option::from`
    To,
    /// `to_nz()/to_odd()` then `.expect()`
    ToExpect,
    /// `to_nz()/to_odd()` then `.unwrap()`
    ToUnwrap,
    /// `to_nz()/to_odd()` converted into `CtOption` then `Option::from`
    ToCtOption,
    NewUnwrap,
    FromU8,
    FromU16,
    FromU32,
    FromU64,
    FromU128,
    /// `From<core::num::NonZeroU64>` (trait form)
    FromStd,
    One,
    Max,
    Default,
    FromBeBytes,
    FromLeBytes,
    FromBeByteArray,
    FromLeByteArray,
    FromBeHex,
    FromLeHex,
}

#[derive(Clone, Copy, Debug, Serialize, Deserialize, PartialEq, Eq)]
pub enum Conv {
    /// Odd -> &NonZero reinterpretation (`as_nz_ref`), cloned
    AsNzRef,
    /// `AsRef<NonZero<T>>`
    AsRefNz,
    /// NonZero<Int> -> NonZero<Uint> via abs_sign
    AbsSign,
    /// NonZero<BoxedUint>::widen(+64)
    Widen,
    /// NonZero<BoxedUint>::widen to the same precision / to one limb less (documented to panic)
    WidenSame,
    WidenSmaller,
    /// Odd<Uint<N>> -> Odd<BoxedUint> (From by value / by reference)
    ToBoxed,
    ToBoxedRef,
    /// `*MontyParams::new(odd).modulus()`
    ViaMontyParams,
    ViaMontyParamsVartime,
    /// `MontyParams::conditional_select(&p(a), &p(a), 1).modulus()`
    ViaMontyParamsSelect,
    Clone,
}

#[derive(Clone, Copy, Debug, Serialize, Deserialize, PartialEq, Eq)]
pub enum Cons {
    DivRem,
    Rem,
    DivOp,
    RemOp,
    DivRemVartime,
    MontyNew,
    MontyNewVartime,
    InvOddMod,
    NzRefThenDivide,
}

#[derive(Clone, Copy, Debug, Serialize, Deserialize, PartialEq, Eq)]
pub enum DeFormat {
    SimBin,
    SimHuman,
    Bincode,
    Json,
}

#[derive(Clone, Debug, Serialize, Deserialize)]
pub enum Op {
    Produce {
        carrier: Carrier,
        wr: Wr,
        how: How,
        /// value words (value producers) — `limbs(carrier)` long; for Boxed any length 1..=4
        #[serde(default)]
        words: Vec<u64>,
        /// byte string (byte / hex producers), carrier BYTES long
        #[serde(default, with = "hexbytes")]
        bytes: Vec<u8>,
        /// hex producers only: replace the character at this position of the hex string by this (non-hex) byte
        #[serde(default)]
        bad_hex: Option<(usize, u8)>,
    },
    Select { a: usize, b: usize, choice: bool, form: u8 },
    /// Selection between two valid wrappers of a width the pool does not carry (9, 10, 12 or 15 limbs: more than eight
    /// and not a multiple of eight), built on the spot through `new`; nothing enters the pool
    SelectWide { limbs: usize, odd: bool, a: Vec<u64>, b: Vec<u64>, choice: bool, form: u8 },
    /// `Clone::clone_from` of pool member `src` into a clone of pool member `dst` (same wrapper type; for the boxed
    /// carriers the two may have different precisions — an overwritten buffer is state carried from one value to the next)
    CloneFrom {
        dst: usize,
        src: usize,
        /// take the two most recent pool members instead (dst = last, src = the one before)
        #[serde(default)]
        recent: bool,
    },
    Convert { src: usize, kind: Conv },
    Random { carrier: Carrier, wr: Wr, infallible: bool, bits: u32, tape: TapePlan },
    Deser {
        carrier: Carrier,
        wr: Wr,
        format: DeFormat,
        words: Vec<u64>,
        faults: Vec<Fault>,
        style: Delivery,
        fail_at: Option<usize>,
        /// sim formats only: `Deserialize::deserialize_in_place` into an existing valid wrapper (value one); whatever
        /// the target holds afterwards — success or error — is a wrapper the caller still owns
        #[serde(default)]
        in_place: bool,
    },
    Consume {
        src: usize,
        cons: Cons,
        operand: Vec<u64>,
        /// dividend derived from the divisor n instead of `operand`: 1 = n-1, 2 = 2n-1, 3 = n, 4 = n+1, 5 = (n << k) - 1
        /// (all wrapping at the carrier width) — the neighbourhood of multiples of the divisor
        #[serde(default)]
        rel: u8,
    },
}

#[derive(Clone, Debug, Serialize, Deserialize)]
pub struct Plan {
    pub ops: Vec<Op>,
}

fn limbs_of(c: Carrier) -> usize {
    match c {
        Carrier::Limb | Carrier::U1 => 1,
        Carrier::U2 | Carrier::I2 => 2,
        Carrier::U4 => 4,
        Carrier::Boxed => 0,
    }
}

enum Made {
    Some(W),
    /// producer reported none / Err
    Refused,
    Panic(PanicInfo),
    Budget,
    /// combination does not exist in the API
    NoSuchApi,
}

fn ct<T>(o: CtOption<T>) -> Option<T> {
    Option::from(o)
}

fn from_guard(g: Guarded<Option<W>>) -> Made {
    match g {
        Guarded::Done(Some(w)) => Made::Some(w),
        Guarded::Done(None) => Made::Refused,
        Guarded::Panic(p) => Made::Panic(p),
        Guarded::Budget => Made::Budget,
    }
}

fn uint_of<const N: usize>(words: &[u64]) -> Uint<N> {
    let mut w = [0u64; N];
    for (i, x) in words.iter().take(N).enumerate() {
        w[i] = *x;
    }
    Uint::from_words(w)
}

fn produce_uint<const N: usize>(wr: Wr, how: How, words: &[u64], bytes: &[u8]) -> Made
where
    S: Slot<N>,
    Uint<N>: Encoding + ArrayEncoding,
{
    let x = uint_of::<N>(words);
    let small = words.first().copied().unwrap_or(0);
    let repr = |b: &[u8]| -> Option<<Uint<N> as Encoding>::Repr> { <Uint<N> as Encoding>::Repr::try_from(b).ok() };
    let hexs = hex(bytes);
    macro_rules! nzprim {
        ($std:ty, $prim:ty, $f:ident) => {{
            match <$std>::new(small as $prim) {
                Some(p) => from_guard(guard(|| Some(S::nz(NonZero::<Uint<N>>::$f(p))))),
                None => Made::NoSuchApi, // the std NonZero cannot hold 0: nothing to call
            }
        }};
    }
    match (wr, how) {
        (Wr::Nz, How::New) => from_guard(guard(|| ct(NonZero::new(x)).map(S::nz))),
        (Wr::Nz, How::To) => from_guard(guard(|| Option::<NonZero<Uint<N>>>::from(x.to_nz()).map(S::nz))),
        (Wr::Nz, How::ToCtOption) => from_guard(guard(|| ct(CtOption::from(x.to_nz())).map(S::nz))),
        (Wr::Nz, How::ToExpect) => from_guard(guard(|| Some(S::nz(x.to_nz().expect("zero"))))),
        (Wr::Nz, How::ToUnwrap) => from_guard(guard(|| Some(S::nz(x.to_nz().unwrap())))),
        (Wr::Nz, How::NewUnwrap) => from_guard(guard(|| Some(S::nz(NonZero::<Uint<N>>::new_unwrap(x))))),
        (Wr::Nz, How::FromU8) => nzprim!(NonZeroU8, u8, from_u8),
        (Wr::Nz, How::FromU16) => nzprim!(NonZeroU16, u16, from_u16),
        (Wr::Nz, How::FromU32) => nzprim!(NonZeroU32, u32, from_u32),
        (Wr::Nz, How::FromU64) => nzprim!(NonZeroU64, u64, from_u64),
        (Wr::Nz, How::FromU128) => {
            let v = (small as u128) | ((words.get(1).copied().unwrap_or(0) as u128) << 64);
            // on a type narrower than 128 bits the conversion asserts (panics): that is a way of failing;
            // what it must never do is hand back a wrapper (checked by the invariant, and by `stated`:
            // a value that does not fit is an invalid argument)
            match NonZeroU128::new(v) {
                Some(p) => from_guard(guard(|| Some(S::nz(NonZero::<Uint<N>>::from_u128(p))))),
                _ => Made::NoSuchApi,
            }
        }
        (Wr::Nz, How::FromStd) => match NonZeroU64::new(small) {
            Some(p) => from_guard(guard(|| Some(S::nz(NonZero::<Uint<N>>::from(p))))),
            None => Made::NoSuchApi,
        },
        (Wr::Nz, How::One) => Made::Some(S::nz(NonZero::<Uint<N>>::ONE)),
        (Wr::Nz, How::Max) => Made::Some(S::nz(NonZero::<Uint<N>>::MAX)),
        (Wr::Nz, How::Default) => from_guard(guard(|| Some(S::nz(NonZero::<Uint<N>>::default())))),
        (Wr::Nz, How::FromBeBytes) => match repr(bytes) {
            Some(r) => from_guard(guard(|| ct(NonZero::<Uint<N>>::from_be_bytes(r)).map(S::nz))),
            None => Made::NoSuchApi,
        },
        (Wr::Nz, How::FromLeBytes) => match repr(bytes) {
            Some(r) => from_guard(guard(|| ct(NonZero::<Uint<N>>::from_le_bytes(r)).map(S::nz))),
            None => Made::NoSuchApi,
        },
        (Wr::Nz, How::FromBeByteArray) => {
            if bytes.len() != 8 * N {
                return Made::NoSuchApi;
            }
            from_guard(guard(|| {
                let arr = crypto_bigint::ByteArray::<Uint<N>>::try_from(bytes).ok()?;
                ct(NonZero::<Uint<N>>::from_be_byte_array(arr)).map(S::nz)
            }))
        }
        (Wr::Nz, How::FromLeByteArray) => {
            if bytes.len() != 8 * N {
                return Made::NoSuchApi;
            }
            from_guard(guard(|| {
                let arr = crypto_bigint::ByteArray::<Uint<N>>::try_from(bytes).ok()?;
                ct(NonZero::<Uint<N>>::from_le_byte_array(arr)).map(S::nz)
            }))
        }
        (Wr::Odd, How::New) => from_guard(guard(|| ct(Odd::new(x)).map(S::odd))),
        (Wr::Odd, How::To) => from_guard(guard(|| Option::<Odd<Uint<N>>>::from(x.to_odd()).map(S::odd))),
        (Wr::Odd, How::ToCtOption) => from_guard(guard(|| ct(CtOption::from(x.to_odd())).map(S::odd))),
        (Wr::Odd, How::ToExpect) => from_guard(guard(|| Some(S::odd(x.to_odd().expect("even"))))),
        (Wr::Odd, How::ToUnwrap) => from_guard(guard(|| Some(S::odd(x.to_odd().unwrap())))),
        (Wr::Odd, How::Default) => from_guard(guard(|| Some(S::odd(Odd::<Uint<N>>::default())))),
        (Wr::Odd, How::FromBeHex) => from_guard(guard(|| Some(S::odd(Odd::<Uint<N>>::from_be_hex(&hexs))))),
        (Wr::Odd, How::FromLeHex) => from_guard(guard(|| Some(S::odd(Odd::<Uint<N>>::from_le_hex(&hexs))))),
        _ => Made::NoSuchApi,
    }
}

fn produce(carrier: Carrier, wr: Wr, how: How, words: &[u64], bytes: &[u8]) -> Made {
    match carrier {
        Carrier::U1 => produce_uint::<1>(wr, how, words, bytes),
        Carrier::U2 => produce_uint::<2>(wr, how, words, bytes),
        Carrier::U4 => produce_uint::<4>(wr, how, words, bytes),
        Carrier::Limb => {
            let x = Limb(words.first().copied().unwrap_or(0));
            macro_rules! lprim {
                ($std:ty, $prim:ty, $f:ident) => {{
                    match <$std>::new(x.0 as $prim) {
                        Some(p) => from_guard(guard(|| Some(W::NzLimb(NonZero::<Limb>::$f(p))))),
                        None => Made::NoSuchApi,
                    }
                }};
            }
            match (wr, how) {
                (Wr::Nz, How::New) => from_guard(guard(|| ct(NonZero::new(x)).map(W::NzLimb))),
                (Wr::Nz, How::To) => from_guard(guard(|| Option::<NonZero<Limb>>::from(x.to_nz()).map(W::NzLimb))),
                (Wr::Nz, How::ToCtOption) => from_guard(guard(|| ct(CtOption::from(x.to_nz())).map(W::NzLimb))),
                (Wr::Nz, How::ToExpect) => from_guard(guard(|| Some(W::NzLimb(x.to_nz().expect("zero"))))),
                (Wr::Nz, How::ToUnwrap) => from_guard(guard(|| Some(W::NzLimb(x.to_nz().unwrap())))),
                (Wr::Nz, How::NewUnwrap) => from_guard(guard(|| Some(W::NzLimb(NonZero::<Limb>::new_unwrap(x))))),
                (Wr::Nz, How::FromU8) => lprim!(NonZeroU8, u8, from_u8),
                (Wr::Nz, How::FromU16) => lprim!(NonZeroU16, u16, from_u16),
                (Wr::Nz, How::FromU32) => lprim!(NonZeroU32, u32, from_u32),
                (Wr::Nz, How::FromU64) => lprim!(NonZeroU64, u64, from_u64),
                (Wr::Nz, How::FromStd) => match NonZeroU32::new(x.0 as u32) {
                    Some(p) => from_guard(guard(|| Some(W::NzLimb(NonZero::<Limb>::from(p))))),
                    None => Made::NoSuchApi,
                },
                (Wr::Nz, How::One) => Made::Some(W::NzLimb(NonZero::<Limb>::ONE)),
                (Wr::Nz, How::Max) => Made::Some(W::NzLimb(NonZero::<Limb>::MAX)),
                (Wr::Nz, How::Default) => from_guard(guard(|| Some(W::NzLimb(NonZero::<Limb>::default())))),
                (Wr::Nz, How::FromBeBytes) => match <[u8; 8]>::try_from(bytes) {
                    Ok(r) => from_guard(guard(|| ct(NonZero::<Limb>::from_be_bytes(r)).map(W::NzLimb))),
                    Err(_) => Made::NoSuchApi,
                },
                (Wr::Nz, How::FromLeBytes) => match <[u8; 8]>::try_from(bytes) {
                    Ok(r) => from_guard(guard(|| ct(NonZero::<Limb>::from_le_bytes(r)).map(W::NzLimb))),
                    Err(_) => Made::NoSuchApi,
                },
                // Odd<Limb> has exactly one public producer: the derived Default
                (Wr::Odd, How::Default) => from_guard(guard(|| Some(W::OddLimb(Odd::<Limb>::default())))),
                _ => Made::NoSuchApi,
            }
        }
        Carrier::I2 => {
            let x = Int::<2>::from_words([words.first().copied().unwrap_or(0), words.get(1).copied().unwrap_or(0)]);
            match (wr, how) {
                (Wr::Nz, How::New) => from_guard(guard(|| ct(NonZero::new(x)).map(W::NzI2))),
                (Wr::Nz, How::To) => from_guard(guard(|| Option::<NonZero<Int<2>>>::from(x.to_nz()).map(W::NzI2))),
                (Wr::Nz, How::ToUnwrap) => from_guard(guard(|| Some(W::NzI2(x.to_nz().unwrap())))),
                (Wr::Nz, How::One) => Made::Some(W::NzI2(NonZero::<Int<2>>::ONE)),
                (Wr::Nz, How::Max) => Made::Some(W::NzI2(NonZero::<Int<2>>::MAX)),
                (Wr::Nz, How::Default) => from_guard(guard(|| Some(W::NzI2(NonZero::<Int<2>>::default())))),
                (Wr::Odd, How::To) => from_guard(guard(|| Option::<Odd<Int<2>>>::from(x.to_odd()).map(W::OddI2))),
                (Wr::Odd, How::ToUnwrap) => from_guard(guard(|| Some(W::OddI2(x.to_odd().unwrap())))),
                (Wr::Odd, How::Default) => from_guard(guard(|| Some(W::OddI2(Odd::<Int<2>>::default())))),
                _ => Made::NoSuchApi,
            }
        }
        Carrier::Boxed => {
            let x = BoxedUint::from_words(words.iter().copied());
            match (wr, how) {
                (Wr::Nz, How::New) => from_guard(guard(|| ct(NonZero::new(x.clone())).map(W::NzB))),
                (Wr::Odd, How::New) => from_guard(guard(|| ct(Odd::new(x.clone())).map(W::OddB))),
                (Wr::Odd, How::To) => from_guard(guard(|| ct(x.to_odd()).map(W::OddB))),
                (Wr::Odd, How::Default) => from_guard(guard(|| Some(W::OddB(Odd::<BoxedUint>::default())))),
                _ => Made::NoSuchApi,
            }
        }
    }
}

/// Validity and value of the argument as the documentation states it.
fn stated(carrier: Carrier, wr: Wr, how: How, words: &[u64], bytes: &[u8]) -> Option<(Vec<u64>, bool)> {
    let n = match carrier {
        Carrier::Boxed => words.len().max(1),
        c => limbs_of(c),
    };
    let val: Vec<u64> = match how {
        How::FromBeBytes | How::FromBeByteArray | How::FromBeHex => {
            let mut b = bytes.to_vec();
            b.reverse();
            le_words(&b, n)
        }
        How::FromLeBytes | How::FromLeByteArray | How::FromLeHex => le_words(bytes, n),
        How::One => {
            let mut v = vec![0; n];
            v[0] = 1;
            v
        }
        How::Max => {
            let mut v = vec![u64::MAX; n];
            if carrier == Carrier::I2 {
                v[n - 1] = u64::MAX >> 1;
            }
            v
        }
        How::Default => return None, // Default has no argument; only the invariant applies
        How::FromU8 => vec_n(words[0] & 0xff, n),
        How::FromU16 => vec_n(words[0] & 0xffff, n),
        How::FromU32 => vec_n(words[0] & 0xffff_ffff, n),
        How::FromStd if carrier == Carrier::Limb => vec_n(words[0] & 0xffff_ffff, n),
        How::FromU64 | How::FromStd => vec_n(words[0], n),
        How::FromU128 => {
            let mut v = vec![0; n];
            v[0] = words[0];
            let hi = words.get(1).copied().unwrap_or(0);
            if n > 1 {
                v[1] = hi;
            } else if hi != 0 {
                // the value does not fit the carrier: no valid wrapper of it exists
                return Some((v, false));
            }
            v
        }
        _ => {
            let mut v = words.to_vec();
            v.resize(n, 0);
            v
        }
    };
    let ok = match wr {
        Wr::Nz => !is_zero(&val),
        Wr::Odd => is_odd(&val),
    };
    Some((val, ok))
}

fn vec_n(x: u64, n: usize) -> Vec<u64> {
    let mut v = vec![0; n];
    v[0] = x;
    v
}

fn le_words(bytes: &[u8], n: usize) -> Vec<u64> {
    let mut v = vec![0u64; n];
    for (i, b) in bytes.iter().enumerate() {
        if i / 8 < n {
            v[i / 8] |= (*b as u64) << (8 * (i % 8));
        }
    }
    v
}

/// Producers documented to panic on an invalid argument.
fn documented_panic_on_invalid(how: How) -> bool {
    matches!(how, How::NewUnwrap | How::ToExpect | How::ToUnwrap | How::FromBeHex | How::FromLeHex)
}

fn is_byte_order_producer(how: How) -> bool {
    matches!(how, How::FromBeBytes | How::FromLeBytes | How::FromBeByteArray | How::FromLeByteArray | How::FromBeHex | How::FromLeHex)
}

struct Member {
    w: W,
    born: usize,
    producer: String,
}

fn consequence(w: &W) -> String {
    // feed the invalid member to one consumer, deliberately, to record what a user would see
    let g = match w {
        W::OddU1(o) => guard(|| {
            let _ = MontyParams::new(*o);
        }),
        W::OddU2(o) => guard(|| {
            let _ = MontyParams::new(*o);
        }),
        W::OddU4(o) => guard(|| {
            let _ = MontyParams::new(*o);
        }),
        W::OddB(o) => {
            let o = o.clone();
            guard(move || {
                let _ = BoxedMontyParams::new(o);
            })
        }
        W::NzU1(n) => guard(|| {
            let _ = Uint::<1>::MAX.div_rem(n);
        }),
        W::NzU2(n) => guard(|| {
            let _ = Uint::<2>::MAX.div_rem(n);
        }),
        W::NzU4(n) => guard(|| {
            let _ = Uint::<4>::MAX.div_rem(n);
        }),
        W::NzLimb(n) => guard(|| {
            let _ = Uint::<2>::MAX.div_rem_limb(*n);
        }),
        W::NzB(n) => {
            let n = n.clone();
            guard(move || {
                let _ = BoxedUint::max(n.bits_precision()).div_rem(&n);
            })
        }
        _ => return "no consumer for this type".into(),
    };
    match g {
        Guarded::Panic(p) => format!("downstream consumer panics: {} at {}", p.message, p.location),
        _ => "downstream consumer returned (silently wrong arithmetic)".into(),
    }
}

fn exec(plan: &Plan, out: &mut RunOut) {
    let mut pool: Vec<Member> = Vec::new();
    for (ei, op) in plan.ops.iter().enumerate() {
        let replay = || serde_json::to_value(Plan { ops: vec![op.clone()] }).ok();
        match op {
            Op::Produce { carrier, wr, how, words, bytes, bad_hex } => {
                // malformed hex: the documented behaviour is a panic; a wrapper coming back is an accepted invalid argument
                if let (Some((pos, ch)), How::FromBeHex | How::FromLeHex) = (bad_hex, how) {
                    let mut hs = hex(bytes).into_bytes();
                    if !hs.is_empty() && matches!(carrier, Carrier::U1 | Carrier::U2 | Carrier::U4) && *wr == Wr::Odd {
                        let k = pos % hs.len();
                        hs[k] = *ch;
                        let hstr = String::from_utf8_lossy(&hs).to_string();
                        let g = match (carrier, how) {
                            (Carrier::U1, How::FromBeHex) => guard(|| Odd::<Uint<1>>::from_be_hex(&hstr).get().to_words().to_vec()),
                            (Carrier::U1, _) => guard(|| Odd::<Uint<1>>::from_le_hex(&hstr).get().to_words().to_vec()),
                            (Carrier::U2, How::FromBeHex) => guard(|| Odd::<Uint<2>>::from_be_hex(&hstr).get().to_words().to_vec()),
                            (Carrier::U2, _) => guard(|| Odd::<Uint<2>>::from_le_hex(&hstr).get().to_words().to_vec()),
                            (Carrier::U4, How::FromBeHex) => guard(|| Odd::<Uint<4>>::from_be_hex(&hstr).get().to_words().to_vec()),
                            _ => guard(|| Odd::<Uint<4>>::from_le_hex(&hstr).get().to_words().to_vec()),
                        };
                        out.ev(&format!("produce-bad-hex/{:?}/{:?}/{}", carrier, how, matches!(g, Guarded::Panic(_))));
                        out.state(format!("produce|{:?}::Odd::{:?}|malformed-hex|{}", carrier, how, if matches!(g, Guarded::Panic(_)) { "panic" } else { "accepted" }));
                        match g {
                            Guarded::Panic(_) => out.count("expected-panic:malformed-hex"),
                            Guarded::Done(w) => {
                                out.viol(
                                    "C12/accepted-invalid",
                                    format!("{:?}::Odd::{:?}:malformed-hex", carrier, how),
                                    format!("{:?} accepted the string {:?}, which is not hex (byte {:#04x} at position {}), and produced Odd = {}", how, hstr, ch, k, hexw(&w)),
                                    replay(),
                                );
                                out.viol("C11/missing-panic", format!("{:?}::Odd::{:?}:malformed-hex", carrier, how), "documented to panic on malformed hex".into(), replay());
                            }
                            Guarded::Budget => {}
                        }
                        continue;
                    }
                }
                let made = produce(*carrier, *wr, *how, words, bytes);
                let pname = format!("{:?}::{:?}::{:?}", carrier, wr, how);
                let st = stated(*carrier, *wr, *how, words, bytes);
                let tag = match &made {
                    Made::Some(_) => "some",
                    Made::Refused => "refused",
                    Made::Panic(_) => "panic",
                    Made::Budget => "budget",
                    Made::NoSuchApi => "n/a",
                };
                out.ev(&format!("produce/{}/{}", pname, tag));
                if matches!(made, Made::NoSuchApi) {
                    continue;
                }
                out.state(format!("produce|{}|arg-{}|{}", pname, st.as_ref().map(|s| if s.1 { "valid" } else { "invalid" }).unwrap_or("none"), tag));
                match (&made, &st) {
                    (Made::Some(w), Some((val, ok))) => {
                        if is_byte_order_producer(*how) && w.words() != *val {
                            out.viol(
                                "C12/byte-order",
                                pname.clone(),
                                format!("{} of {} produced {} but the stated byte order denotes {}", pname, hex(bytes), hexw(&w.words()), hexw(val)),
                                replay(),
                            );
                        } else if *ok && !is_byte_order_producer(*how) && !matches!(how, How::Default) && w.words() != *val {
                            out.viol(
                                "C12/accepted-invalid",
                                format!("{}:{}:value-changed", pname, w.ty()),
                                format!("{} of {} produced the different value {}", pname, hexw(val), hexw(&w.words())),
                                replay(),
                            );
                        } else if !*ok {
                            if documented_panic_on_invalid(*how) {
                                out.viol("C11/missing-panic", pname.clone(), format!("{} is documented to panic on an invalid argument but returned {}", pname, hexw(&w.words())), replay());
                            }
                            out.viol(
                                "C12/accepted-invalid",
                                format!("{}:{}", pname, w.ty()),
                                format!("{} accepted the invalid argument {} and produced {} = {}", pname, if is_byte_order_producer(*how) { hex(bytes) } else { hexw(words) }, w.ty(), hexw(&w.words())),
                                replay(),
                            );
                        }
                    }
                    (Made::Refused, Some((val, ok))) => {
                        if *ok && is_byte_order_producer(*how) {
                            out.viol("C12/byte-order", pname.clone(), format!("{} refused {} although the stated byte order denotes the valid value {}", pname, hex(bytes), hexw(val)), replay());
                        } else if *ok {
                            out.count("probe:valid-argument-refused");
                        } else {
                            out.count("probe:invalid-argument-refused");
                        }
                    }
                    (Made::Panic(p), Some((val, ok))) => {
                        if *ok && is_byte_order_producer(*how) {
                            out.viol("C12/byte-order", pname.clone(), format!("{} panicked ({}) on {} although the stated byte order denotes the valid value {}", pname, p.message, hex(bytes), hexw(val)), replay());
                        } else if !*ok && documented_panic_on_invalid(*how) {
                            out.count("expected-panic:documented-panicking-producer-on-invalid-argument");
                        } else if *how == How::FromU128 && limbs_of(*carrier) < 2 {
                            // `Uint::<1>::from_u128` asserts LIMBS >= 2: a misuse the type cannot express, refused by panic
                            out.count("expected-panic:from_u128-on-a-carrier-narrower-than-128-bits");
                        } else {
                            out.viol("C11/unexpected-panic", format!("{}:{}", pname, p.location), format!("{} panicked at {}: {}", pname, p.location, p.message), replay());
                        }
                    }
                    _ => {}
                }
                if let Made::Some(w) = made {
                    pool.push(Member { w, born: ei, producer: pname });
                }
            }
            Op::Select { a, b, choice, form } => {
                if pool.len() < 2 {
                    continue;
                }
                let (ia, ib) = (a % pool.len(), b % pool.len());
                let ch = Choice::from(*choice as u8);
                macro_rules! sel {
                    ($var:ident, $x:expr, $y:expr) => {{
                        let (x, y) = ($x, $y);
                        let r = match form % 3 {
                            0 => ConditionallySelectable::conditional_select(&x, &y, ch),
                            1 => {
                                let mut t = x;
                                t.conditional_assign(&y, ch);
                                t
                            }
                            _ => {
                                let (mut s, mut t) = (x, y);
                                ConditionallySelectable::conditional_swap(&mut s, &mut t, ch);
                                s
                            }
                        };
                        Some(W::$var(r))
                    }};
                }
                let r = match (&pool[ia].w, &pool[ib].w) {
                    (W::NzLimb(x), W::NzLimb(y)) => sel!(NzLimb, *x, *y),
                    (W::NzU1(x), W::NzU1(y)) => sel!(NzU1, *x, *y),
                    (W::NzU2(x), W::NzU2(y)) => sel!(NzU2, *x, *y),
                    (W::NzU4(x), W::NzU4(y)) => sel!(NzU4, *x, *y),
                    (W::OddU1(x), W::OddU1(y)) => sel!(OddU1, *x, *y),
                    (W::OddU2(x), W::OddU2(y)) => sel!(OddU2, *x, *y),
                    (W::OddU4(x), W::OddU4(y)) => sel!(OddU4, *x, *y),
                    (W::NzI2(x), W::NzI2(y)) => sel!(NzI2, *x, *y),
                    (W::OddI2(x), W::OddI2(y)) => sel!(OddI2, *x, *y),
                    _ => None,
                };
                if let Some(w) = r {
                    out.ev(&format!("select/{}/{}", w.ty(), form % 3));
                    out.state(format!("select|{}|form{}", w.ty(), form % 3));
                    let want = if *choice { pool[ib].w.words() } else { pool[ia].w.words() };
                    if w.words() != want {
                        out.viol(
                            "C12/invalid-wrapper",
                            format!("conditional_select:{}", w.ty()),
                            format!("selection between {} and {} (choice={}) gave {}", hexw(&pool[ia].w.words()), hexw(&pool[ib].w.words()), choice, hexw(&w.words())),
                            None,
                        );
                    }
                    pool.push(Member { w, born: ei, producer: "conditional_select".into() });
                }
            }
            Op::SelectWide { limbs, odd, a, b, choice, form } => {
                let ch = Choice::from(*choice as u8);
                macro_rules! wide {
                    ($n:expr) => {{
                        let mk = |w: &[u64]| {
                            let mut x = [0u64; $n];
                            x.copy_from_slice(&w[..$n]);
                            Uint::<$n>::from_words(x)
                        };
                        let (xa, xb) = (mk(a), mk(b));
                        macro_rules! go {
                            ($wrap:ident) => {{
                                guard(move || {
                                    let (Some(wa), Some(wb)) = (Option::<$wrap<Uint<$n>>>::from($wrap::new(xa)), Option::<$wrap<Uint<$n>>>::from($wrap::new(xb))) else { return None };
                                    let r = match form % 3 {
                                        0 => ConditionallySelectable::conditional_select(&wa, &wb, ch),
                                        1 => {
                                            let mut t = wa;
                                            t.conditional_assign(&wb, ch);
                                            t
                                        }
                                        _ => {
                                            let (mut s, mut t) = (wa, wb);
                                            ConditionallySelectable::conditional_swap(&mut s, &mut t, ch);
                                            s
                                        }
                                    };
                                    Some(r.as_ref().to_words().to_vec())
                                })
                            }};
                        }
                        if *odd { go!(Odd) } else { go!(NonZero) }
                    }};
                }
                let g: Guarded<Option<Vec<u64>>> = match *limbs {
                    9 => wide!(9),
                    10 => wide!(10),
                    12 => wide!(12),
                    15 => wide!(15),
                    _ => continue,
                };
                let ty = format!("{}<Uint<{}>>", if *odd { "Odd" } else { "NonZero" }, limbs);
                match g {
                    Guarded::Done(Some(got)) => {
                        out.ev(&format!("select-wide/{}/{}", ty, form % 3));
                        out.state(format!("select-wide|{}|form{}|choice{}", ty, form % 3, *choice as u8));
                        out.count("probe:selection-at-widths-9-to-15-limbs");
                        let want = if *choice { &b[..*limbs] } else { &a[..*limbs] };
                        let bad = if *odd { !is_odd(&got) } else { is_zero(&got) };
                        if bad || got != want {
                            out.viol(
                                "C12/invalid-wrapper",
                                format!("conditional_select:{}", ty),
                                format!("selection between {} and {} (choice={}, form {}) gave {}", hexw(&a[..*limbs]), hexw(&b[..*limbs]), choice, form % 3, hexw(&got)),
                                None,
                            );
                        }
                    }
                    Guarded::Panic(p) => {
                        out.viol("C11/unexpected-panic", format!("select-wide:{}", p.location), format!("selection between two valid {} panicked at {}: {}", ty, p.location, p.message), None);
                    }
                    _ => {}
                }
            }
            Op::CloneFrom { dst, src, recent } => {
                if pool.len() < 2 {
                    continue;
                }
                let (id, is) = if *recent { (pool.len() - 1, pool.len() - 2) } else { (dst % pool.len(), src % pool.len()) };
                macro_rules! cf {
                    ($var:ident, $x:expr, $y:expr) => {{
                        let (x, y) = ($x.clone(), $y.clone());
                        guard(move || {
                            let mut t = x;
                            t.clone_from(&y);
                            Some(W::$var(t))
                        })
                    }};
                }
                let g: Guarded<Option<W>> = match (&pool[id].w, &pool[is].w) {
                    (W::NzLimb(x), W::NzLimb(y)) => cf!(NzLimb, x, y),
                    (W::OddLimb(x), W::OddLimb(y)) => cf!(OddLimb, x, y),
                    (W::NzU1(x), W::NzU1(y)) => cf!(NzU1, x, y),
                    (W::NzU2(x), W::NzU2(y)) => cf!(NzU2, x, y),
                    (W::NzU4(x), W::NzU4(y)) => cf!(NzU4, x, y),
                    (W::OddU1(x), W::OddU1(y)) => cf!(OddU1, x, y),
                    (W::OddU2(x), W::OddU2(y)) => cf!(OddU2, x, y),
                    (W::OddU4(x), W::OddU4(y)) => cf!(OddU4, x, y),
                    (W::NzI2(x), W::NzI2(y)) => cf!(NzI2, x, y),
                    (W::OddI2(x), W::OddI2(y)) => cf!(OddI2, x, y),
                    (W::NzB(x), W::NzB(y)) => cf!(NzB, x, y),
                    (W::OddB(x), W::OddB(y)) => cf!(OddB, x, y),
                    _ => continue,
                };
                match g {
                    Guarded::Done(Some(w)) => {
                        out.ev(&format!("clone_from/{}", w.ty()));
                        let (a, b) = (w.words(), pool[is].w.words());
                        out.count("probe:clone_from-checked");
                        if b.len() != pool[id].w.words().len() {
                            out.count("probe:clone_from-between-different-precisions");
                        }
                        out.state(format!("clone_from|{}|dst-limbs{}|src-limbs{}", w.ty(), pool[id].w.words().len().min(5), b.len().min(5)));
                        let m = a.len().min(b.len());
                        if a[..m] != b[..m] || !is_zero(&a[m..]) || !is_zero(&b[m..]) {
                            out.viol(
                                "C12/invalid-wrapper",
                                format!("clone_from:{}:value-changed", w.ty()),
                                format!("clone_from of {} into a {} holding {} gave {}", hexw(&b), w.ty(), hexw(&pool[id].w.words()), hexw(&a)),
                                None,
                            );
                        }
                        pool.push(Member { w, born: ei, producer: "clone_from".into() });
                    }
                    Guarded::Panic(p) => {
                        out.viol("C11/unexpected-panic", format!("clone_from:{}", p.location), format!("clone_from between two valid {} panicked at {}: {}", pool[is].w.ty(), p.location, p.message), None);
                    }
                    _ => {}
                }
            }
            Op::Convert { src, kind } => {
                if pool.is_empty() {
                    continue;
                }
                let i = src % pool.len();
                let g: Guarded<Option<W>> = match (&pool[i].w, kind) {
                    (W::OddU1(o), Conv::AsNzRef) => guard(|| Some(W::NzU1(*o.as_nz_ref()))),
                    (W::OddU2(o), Conv::AsNzRef) => guard(|| Some(W::NzU2(*o.as_nz_ref()))),
                    (W::OddU4(o), Conv::AsNzRef) => guard(|| Some(W::NzU4(*o.as_nz_ref()))),
                    (W::OddB(o), Conv::AsNzRef) => guard(|| Some(W::NzB(o.as_nz_ref().clone()))),
                    (W::OddI2(o), Conv::AsNzRef) => guard(|| Some(W::NzI2(*o.as_nz_ref()))),
                    (W::OddU2(o), Conv::AsRefNz) => guard(|| Some(W::NzU2(*AsRef::<NonZero<Uint<2>>>::as_ref(o)))),
                    (W::OddU4(o), Conv::AsRefNz) => guard(|| Some(W::NzU4(*AsRef::<NonZero<Uint<4>>>::as_ref(o)))),
                    (W::NzI2(n), Conv::AbsSign) => guard(|| Some(W::NzU2(n.abs_sign().0))),
                    (W::NzB(n), Conv::Widen) => guard(|| Some(W::NzB(n.widen(n.bits_precision() + 64)))),
                    (W::NzB(n), Conv::WidenSame) => guard(|| Some(W::NzB(n.widen(n.bits_precision())))),
                    (W::NzB(n), Conv::WidenSmaller) => {
                        if n.bits_precision() <= 64 {
                            continue;
                        }
                        // documented: panics if the requested precision is smaller than the current one
                        match guard(|| n.widen(n.bits_precision() - 64)) {
                            Guarded::Panic(_) => {
                                out.count("expected-panic:widen-to-a-smaller-precision");
                                continue;
                            }
                            Guarded::Done(w) => {
                                out.viol(
                                    "C11/missing-panic",
                                    "NonZero<BoxedUint>::widen:smaller-precision".into(),
                                    format!("widen({}) of a {}-bit value is documented to panic but returned {}", n.bits_precision() - 64, n.bits_precision(), hexw(&w.as_ref().to_words())),
                                    None,
                                );
                                // whatever came back is a NonZero the caller now holds: judge it (truncation is the only value change to expect)
                                pool.push(Member { w: W::NzB(w), born: ei, producer: "NonZero<BoxedUint>::widen(smaller)".into() });
                                continue;
                            }
                            Guarded::Budget => continue,
                        }
                    }
                    (W::OddU1(o), Conv::ToBoxed) => guard(|| Some(W::OddB(Odd::<BoxedUint>::from(*o)))),
                    (W::OddU2(o), Conv::ToBoxed) => guard(|| Some(W::OddB(Odd::<BoxedUint>::from(*o)))),
                    (W::OddU4(o), Conv::ToBoxed) => guard(|| Some(W::OddB(Odd::<BoxedUint>::from(*o)))),
                    (W::OddU2(o), Conv::ToBoxedRef) => guard(|| Some(W::OddB(Odd::<BoxedUint>::from(o)))),
                    (W::OddU4(o), Conv::ToBoxedRef) => guard(|| Some(W::OddB(Odd::<BoxedUint>::from(o)))),
                    (W::OddU1(o), Conv::ViaMontyParams) => guard(|| Some(W::OddU1(*MontyParams::new(*o).modulus()))),
                    (W::OddU2(o), Conv::ViaMontyParams) => guard(|| Some(W::OddU2(*MontyParams::new(*o).modulus()))),
                    (W::OddU4(o), Conv::ViaMontyParams) => guard(|| Some(W::OddU4(*MontyParams::new(*o).modulus()))),
                    (W::OddU2(o), Conv::ViaMontyParamsVartime) => guard(|| Some(W::OddU2(*MontyParams::new_vartime(*o).modulus()))),
                    (W::OddU4(o), Conv::ViaMontyParamsVartime) => guard(|| Some(W::OddU4(*MontyParams::new_vartime(*o).modulus()))),
                    (W::OddU2(o), Conv::ViaMontyParamsSelect) => guard(|| {
                        let p = MontyParams::new(*o);
                        let q = MontyParams::new_vartime(*o);
                        Some(W::OddU2(*MontyParams::conditional_select(&p, &q, Choice::from(1)).modulus()))
                    }),
                    (W::OddB(o), Conv::ViaMontyParams) => {
                        let o = o.clone();
                        guard(move || Some(W::OddB(BoxedMontyParams::new(o).modulus().clone())))
                    }
                    (W::OddB(o), Conv::ViaMontyParamsVartime) => {
                        let o = o.clone();
                        guard(move || Some(W::OddB(BoxedMontyParams::new_vartime(o).modulus().clone())))
                    }
                    (w, Conv::Clone) => {
                        let w = w.clone();
                        guard(move || Some(w))
                    }
                    _ => guard(|| None),
                };
                match g {
                    Guarded::Done(Some(w)) => {
                        out.ev(&format!("convert/{:?}/{}", kind, w.ty()));
                        out.state(format!("convert|{:?}|{}", kind, w.ty()));
                        let (a, b) = (w.words(), pool[i].w.words());
                        let m = a.len().min(b.len());
                        if (a[..m] != b[..m] || !is_zero(&a[m..]) || !is_zero(&b[m..])) && !matches!(kind, Conv::AbsSign) {
                            out.viol(
                                "C12/invalid-wrapper",
                                format!("{:?}:value-changed", kind),
                                format!("{:?} of {} = {} gave {}", kind, pool[i].w.ty(), hexw(&pool[i].w.words()), hexw(&w.words())),
                                None,
                            );
                        }
                        pool.push(Member { w, born: ei, producer: format!("{:?}", kind) });
                    }
                    Guarded::Panic(p) => {
                        // every pool member is valid here (invalid ones are quarantined), so this is a totality failure
                        out.viol("C11/unexpected-panic", format!("{:?}:{}", kind, p.location), format!("{:?} of a valid {} panicked at {}: {}", kind, pool[i].w.ty(), p.location, p.message), None);
                    }
                    _ => {}
                }
            }
            Op::Random { carrier, wr, infallible, bits, tape } => {
                let mut t = Tape::new(tape);
                macro_rules! rnd {
                    ($ty:ty, $wrap:expr) => {{
                        if *infallible {
                            guard(|| Some($wrap(<$ty>::random(&mut SimRng(&mut t)))))
                        } else {
                            guard(|| <$ty>::try_random(&mut SimTryRng(&mut t)).ok().map($wrap))
                        }
                    }};
                }
                let g: Guarded<Option<W>> = match (carrier, wr) {
                    (Carrier::Limb, Wr::Nz) => rnd!(NonZero<Limb>, W::NzLimb),
                    (Carrier::U1, Wr::Nz) => rnd!(NonZero<Uint<1>>, W::NzU1),
                    (Carrier::U2, Wr::Nz) => rnd!(NonZero<Uint<2>>, W::NzU2),
                    (Carrier::U4, Wr::Nz) => rnd!(NonZero<Uint<4>>, W::NzU4),
                    (Carrier::I2, Wr::Nz) => rnd!(NonZero<Int<2>>, W::NzI2),
                    (Carrier::U1, Wr::Odd) => rnd!(Odd<Uint<1>>, W::OddU1),
                    (Carrier::U2, Wr::Odd) => rnd!(Odd<Uint<2>>, W::OddU2),
                    (Carrier::U4, Wr::Odd) => rnd!(Odd<Uint<4>>, W::OddU4),
                    (Carrier::Boxed, Wr::Odd) => {
                        // bits == 0: no odd value below 2^0 exists, so nothing is promised about the range (that is
                        // C19's business) — but whatever wrapper comes back must still be odd
                        if *infallible {
                            guard(|| Some(W::OddB(Odd::<BoxedUint>::random(&mut SimRng(&mut t), *bits))))
                        } else {
                            guard(|| Some(W::OddB(Odd::<BoxedUint>::random(&mut SimTryRng(&mut t), *bits))))
                        }
                    }
                    _ => continue,
                };
                for f in &t.faults_fired {
                    out.count(match f.id {
                        crate::dev::rng::FAULT_AT_CALL => "fault:rng-fail-at-call",
                        crate::dev::rng::FAULT_AT_BYTE => "fault:rng-fail-at-byte",
                        _ => "fault:rng-tape-exhausted",
                    });
                }
                let tag = match &g {
                    Guarded::Done(Some(_)) => "some",
                    Guarded::Done(None) => "err",
                    Guarded::Panic(_) => "panic",
                    Guarded::Budget => "budget",
                };
                out.ev(&format!("random/{:?}/{:?}/{}/{}", carrier, wr, tag, t.bytes));
                out.state(format!("random|{:?}|{:?}|{}|{}|skipped{}", carrier, wr, tape.class(), tag, (t.bytes / 8 / limbs_of(*carrier).max(1) as u64).min(4)));
                match g {
                    Guarded::Done(Some(w)) => {
                        if t.bytes > 8 * (limbs_of(*carrier).max(1) as u64) && *wr == Wr::Nz {
                            out.count("probe:random-nonzero-skipped-zero-candidates");
                        }
                        pool.push(Member { w, born: ei, producer: format!("{:?}::{:?}::random", carrier, wr) });
                    }
                    Guarded::Panic(p) => {
                        let rng_failed = !t.faults_fired.is_empty();
                        if *carrier == Carrier::Boxed && rng_failed {
                            out.count("expected-panic:rng-failure-in-panicking-wrapper");
                        } else {
                            out.viol("C11/unexpected-panic", format!("random:{:?}:{:?}:{}", carrier, wr, p.location), format!("random panicked at {}: {}", p.location, p.message), replay());
                        }
                    }
                    _ => {}
                }
            }
            Op::Deser { carrier, wr, format, words, faults, style, fail_at, in_place } => {
                let n = limbs_of(*carrier).max(1);
                let mut le: Vec<u8> = Vec::new();
                for w in words.iter().take(n) {
                    le.extend_from_slice(&w.to_le_bytes());
                }
                le.resize(8 * n, 0);
                // hand-built record of the *raw* integer (may be zero / even), then medium faults
                let mut fired = 0;
                let r: Guarded<Option<W>> = match format {
                    DeFormat::SimBin | DeFormat::SimHuman => {
                        let human = *format == DeFormat::SimHuman;
                        let mut toks = if *carrier == Carrier::Limb {
                            vec![Tok::U64(words[0])]
                        } else if human {
                            vec![Tok::Str(hex(&le))]
                        } else {
                            vec![Tok::Bytes(le.clone())]
                        };
                        for f in faults {
                            let did = match &mut toks[0] {
                                Tok::Bytes(b) => f.apply(b),
                                Tok::Str(s) => {
                                    let mut b = s.as_bytes().to_vec();
                                    let d = f.apply(&mut b);
                                    for x in b.iter_mut() {
                                        *x &= 0x7f;
                                    }
                                    *s = String::from_utf8(b).unwrap_or_default();
                                    d
                                }
                                Tok::U64(v) => {
                                    if let Fault::FlipBit(i) = f {
                                        *v ^= 1 << (i % 64);
                                        true
                                    } else {
                                        false
                                    }
                                }
                                _ => false,
                            };
                            if did {
                                fired += 1;
                                out.count(&format!("fault:medium-{}", f.kind()));
                            }
                        }
                        macro_rules! de {
                            ($ty:ty, $wrap:expr, $one:expr) => {{
                                let toks = toks.clone();
                                if *in_place {
                                    guard(move || {
                                        let mut d = SimDe::new(&toks, human, *style, *style, *fail_at);
                                        let mut place: $ty = $one;
                                        let _ = <$ty as Deserialize>::deserialize_in_place(&mut d, &mut place);
                                        Some($wrap(place))
                                    })
                                } else {
                                    guard(move || {
                                        let mut d = SimDe::new(&toks, human, *style, *style, *fail_at);
                                        <$ty>::deserialize(&mut d).ok().map($wrap)
                                    })
                                }
                            }};
                        }
                        if *in_place {
                            out.count("probe:deserialize-in-place");
                        }
                        match (carrier, wr) {
                            (Carrier::Limb, Wr::Nz) => de!(NonZero<Limb>, W::NzLimb, NonZero::<Limb>::ONE),
                            (Carrier::U1, Wr::Nz) => de!(NonZero<Uint<1>>, W::NzU1, NonZero::<Uint<1>>::ONE),
                            (Carrier::U2, Wr::Nz) => de!(NonZero<Uint<2>>, W::NzU2, NonZero::<Uint<2>>::ONE),
                            (Carrier::U4, Wr::Nz) => de!(NonZero<Uint<4>>, W::NzU4, NonZero::<Uint<4>>::ONE),
                            (Carrier::U1, Wr::Odd) => de!(Odd<Uint<1>>, W::OddU1, Odd::new(Uint::<1>::ONE).unwrap()),
                            (Carrier::U2, Wr::Odd) => de!(Odd<Uint<2>>, W::OddU2, Odd::new(Uint::<2>::ONE).unwrap()),
                            (Carrier::U4, Wr::Odd) => de!(Odd<Uint<4>>, W::OddU4, Odd::new(Uint::<4>::ONE).unwrap()),
                            _ => continue,
                        }
                    }
                    DeFormat::Bincode => {
                        let mut rec = if *carrier == Carrier::Limb {
                            words[0].to_le_bytes().to_vec()
                        } else {
                            let mut v = (le.len() as u64).to_le_bytes().to_vec();
                            v.extend(&le);
                            v
                        };
                        for f in faults {
                            if f.apply(&mut rec) {
                                fired += 1;
                                out.count(&format!("fault:medium-{}", f.kind()));
                            }
                        }
                        macro_rules! de {
                            ($ty:ty, $wrap:expr) => {{
                                let rec = rec.clone();
                                guard(move || bincode::deserialize::<$ty>(&rec).ok().map($wrap))
                            }};
                        }
                        match (carrier, wr) {
                            (Carrier::Limb, Wr::Nz) => de!(NonZero<Limb>, W::NzLimb),
                            (Carrier::U1, Wr::Nz) => de!(NonZero<Uint<1>>, W::NzU1),
                            (Carrier::U2, Wr::Nz) => de!(NonZero<Uint<2>>, W::NzU2),
                            (Carrier::U4, Wr::Nz) => de!(NonZero<Uint<4>>, W::NzU4),
                            (Carrier::U1, Wr::Odd) => de!(Odd<Uint<1>>, W::OddU1),
                            (Carrier::U2, Wr::Odd) => de!(Odd<Uint<2>>, W::OddU2),
                            (Carrier::U4, Wr::Odd) => de!(Odd<Uint<4>>, W::OddU4),
                            _ => continue,
                        }
                    }
                    DeFormat::Json => {
                        let mut rec = if *carrier == Carrier::Limb { format!("{}", words[0]) } else { format!("\"{}\"", hex(&le)) };
                        for f in faults {
                            let mut b = rec.as_bytes().to_vec();
                            if f.apply(&mut b) {
                                for x in b.iter_mut() {
                                    *x &= 0x7f;
                                }
                                rec = String::from_utf8(b).unwrap_or_default();
                                fired += 1;
                                out.count(&format!("fault:medium-{}", f.kind()));
                            }
                        }
                        macro_rules! de {
                            ($ty:ty, $wrap:expr) => {{
                                let rec = rec.clone();
                                guard(move || serde_json::from_str::<$ty>(&rec).ok().map($wrap))
                            }};
                        }
                        match (carrier, wr) {
                            (Carrier::Limb, Wr::Nz) => de!(NonZero<Limb>, W::NzLimb),
                            (Carrier::U1, Wr::Nz) => de!(NonZero<Uint<1>>, W::NzU1),
                            (Carrier::U2, Wr::Nz) => de!(NonZero<Uint<2>>, W::NzU2),
                            (Carrier::U4, Wr::Nz) => de!(NonZero<Uint<4>>, W::NzU4),
                            (Carrier::U1, Wr::Odd) => de!(Odd<Uint<1>>, W::OddU1),
                            (Carrier::U2, Wr::Odd) => de!(Odd<Uint<2>>, W::OddU2),
                            (Carrier::U4, Wr::Odd) => de!(Odd<Uint<4>>, W::OddU4),
                            _ => continue,
                        }
                    }
                };
                let raw_valid = match wr {
                    Wr::Nz => !is_zero(&words[..n.min(words.len())]),
                    Wr::Odd => is_odd(words),
                };
                let tag = match &r {
                    Guarded::Done(Some(_)) => "ok",
                    Guarded::Done(None) => "err",
                    Guarded::Panic(_) => "panic",
                    Guarded::Budget => "budget",
                };
                out.ev(&format!("deser/{:?}/{:?}/{:?}/{}/{}", carrier, wr, format, fired, tag));
                out.state(format!("deser|{:?}|{:?}|{:?}|raw-{}|{}|{}", carrier, wr, format, if raw_valid { "valid" } else { "invalid" }, if fired > 0 { "faulted" } else { "clean" }, tag));
                match r {
                    Guarded::Done(Some(w)) => {
                        let sim_in_place = *in_place && matches!(format, DeFormat::SimBin | DeFormat::SimHuman);
                        if fired == 0 && fail_at.is_none() && !raw_valid && !sim_in_place {
                            // (also caught by the invariant below; reported with the producer's own check id)
                            out.viol(
                                "C12/accepted-invalid",
                                format!("Deserialize::{:?}:{}", format, w.ty()),
                                format!("deserialize accepted the encoding of the invalid value {} as {}", hexw(words), w.ty()),
                                replay(),
                            );
                        }
                        pool.push(Member { w, born: ei, producer: format!("{:?}::{:?}::Deserialize{}::{:?}", carrier, wr, if sim_in_place { "(in place)" } else { "" }, format) });
                    }
                    Guarded::Done(None) => {
                        if fired == 0 && fail_at.is_none() && raw_valid {
                            out.count("probe:valid-encoding-refused");
                        }
                    }
                    Guarded::Panic(p) => {
                        out.viol("C11/unexpected-panic", format!("deserialize:{:?}:{:?}:{}", carrier, wr, p.location), format!("deserialize panicked at {}: {}", p.location, p.message), replay());
                    }
                    _ => {}
                }
            }
            Op::Consume { src, cons, operand, rel } => {
                if pool.is_empty() {
                    continue;
                }
                let i = src % pool.len();
                // dividend relative to the divisor (as integers of the carrier width, wrapping)
                let rel_words = |nw: &[u64]| -> Vec<u64> {
                    let w = nw.len();
                    let modulus = num_bigint::BigUint::from(1u8) << (64 * w);
                    let n = crate::util::big(nw);
                    let one = num_bigint::BigUint::from(1u8);
                    let v = match rel {
                        1 => &n - &one,
                        2 => &n * 2u32 - &one,
                        3 => n.clone(),
                        4 => &n + &one,
                        5 => (&n << (operand.first().copied().unwrap_or(0) % (64 * w as u64)) as usize) + &modulus - &one,
                        _ => crate::util::big(operand),
                    };
                    crate::util::words(&(v % &modulus), w)
                };
                macro_rules! nzc {
                    ($n:expr, $nz:expr) => {{
                        let nz = $nz;
                        let x = uint_of::<$n>(&rel_words(&nz.as_ref().to_words()));
                        match cons {
                            Cons::DivRem => guard(|| {
                                let _ = x.div_rem(&nz);
                            }),
                            Cons::Rem => guard(|| {
                                let _ = x.rem(&nz);
                            }),
                            Cons::DivOp => guard(|| {
                                let _ = x / nz;
                            }),
                            Cons::RemOp => guard(|| {
                                let _ = x % nz;
                            }),
                            _ => guard(|| {
                                let _ = x.div_rem_vartime(&nz);
                            }),
                        }
                    }};
                }
                macro_rules! oddc {
                    ($n:expr, $o:expr) => {{
                        let x = uint_of::<$n>(operand);
                        let o = $o;
                        match cons {
                            Cons::MontyNew => guard(|| {
                                let _ = MontyParams::new(o);
                            }),
                            Cons::MontyNewVartime => guard(|| {
                                let _ = MontyParams::new_vartime(o);
                            }),
                            Cons::InvOddMod => guard(|| {
                                let _ = x.inv_odd_mod(&o);
                            }),
                            _ => guard(|| {
                                let _ = x.div_rem(o.as_nz_ref());
                            }),
                        }
                    }};
                }
                let g = match &pool[i].w {
                    W::NzU1(n) => nzc!(1, *n),
                    W::NzU2(n) => nzc!(2, *n),
                    W::NzU4(n) => nzc!(4, *n),
                    W::OddU1(o) => oddc!(1, *o),
                    W::OddU2(o) => oddc!(2, *o),
                    W::OddU4(o) => oddc!(4, *o),
                    W::NzLimb(n) => {
                        let x = uint_of::<2>(operand);
                        let n = *n;
                        guard(move || {
                            let _ = x.div_rem_limb(n);
                            let _ = x.rem_limb(n);
                        })
                    }
                    W::NzB(n) => {
                        let n = n.clone();
                        let x = if *rel == 0 {
                            BoxedUint::from_words(operand.iter().copied()).widen(n.bits_precision().max(64 * operand.len() as u32))
                        } else {
                            BoxedUint::from_words(rel_words(&n.as_ref().to_words()))
                        };
                        let n = n.widen(x.bits_precision());
                        guard(move || {
                            let _ = x.div_rem(&n);
                            let _ = x.rem(&n);
                        })
                    }
                    W::OddB(o) => {
                        let o = o.clone();
                        match cons {
                            Cons::MontyNewVartime => guard(move || {
                                let _ = BoxedMontyParams::new_vartime(o);
                            }),
                            _ => guard(move || {
                                let _ = BoxedMontyParams::new(o);
                            }),
                        }
                    }
                    _ => continue,
                };
                out.ev(&format!("consume/{:?}/{}", cons, pool[i].w.ty()));
                out.state(format!("consume|{:?}|{}", cons, pool[i].w.ty()));
                if let Guarded::Panic(p) = g {
                    // pool members are valid (invalid ones are quarantined at birth): a consumer that unwinds
                    // on a valid wrapper is a totality failure, reported under C11
                    out.viol(
                        "C11/unexpected-panic",
                        format!("consumer:{:?}:{}:{}", cons, pool[i].w.ty(), p.location),
                        format!("{:?} on valid {} = {} (from {}) panicked at {}: {}", cons, pool[i].w.ty(), hexw(&pool[i].w.words()), pool[i].producer, p.location, p.message),
                        None,
                    );
                }
            }
        }
        // invariant: every pool member valid; offenders are reported once, with the downstream
        // consequence, and quarantined
        let mut k = 0;
        while k < pool.len() {
            if !pool[k].w.valid() {
                let m = pool.remove(k);
                let cq = consequence(&m.w);
                let narrowed = serde_json::to_value(Plan { ops: plan.ops[m.born..=m.born].to_vec() }).ok();
                out.viol(
                    "C12/invalid-wrapper",
                    format!("{}:{}", m.producer, m.w.ty()),
                    format!("{} produced {} = {} (event {}); {}", m.producer, m.w.ty(), hexw(&m.w.words()), m.born, cq),
                    if matches!(plan.ops[m.born], Op::Produce { .. } | Op::Random { .. } | Op::Deser { .. }) { narrowed } else { None },
                );
                out.count("quarantined");
            } else {
                k += 1;
            }
        }
    }
    out.add("pool-members-checked", pool.len() as u64);
}

// ---------------------------------------------------------------------------------------------
// generation

fn gen_value(r: &mut Xoshiro, n: usize) -> Vec<u64> {
    let mut v = vec![0u64; n];
    match r.below(12) {
        0 => {}
        1 => v[0] = 1,
        2 => v[0] = 2,
        3 => v.fill(u64::MAX),
        4 => {
            v.fill(u64::MAX);
            v[0] = u64::MAX - 1;
        }
        5 => {
            let k = r.below(64 * n as u64);
            v[(k / 64) as usize] = 1 << (k % 64);
        }
        6 => {
            // even, only high limbs set
            if n > 1 {
                v[n - 1] = r.next() | 1;
            } else {
                v[0] = r.next() & !1;
            }
        }
        7 => {
            for x in v.iter_mut() {
                *x = r.next();
            }
            v[0] |= 1;
        }
        8 => {
            for x in v.iter_mut() {
                *x = r.next();
            }
            v[0] &= !1;
        }
        9 => v[0] = r.below(256),
        10 => v[0] = 1 << 63,
        _ => {
            for x in v.iter_mut() {
                *x = r.next();
            }
        }
    }
    v
}

/// Argument words for a value producer. `from_u128` always gets a 128-bit argument, also on carriers
/// narrower than that (where the conversion must refuse it), biased towards multiples of 2^64.
fn gen_arg(r: &mut Xoshiro, how: How, n: usize) -> Vec<u64> {
    if how == How::FromU128 {
        let mut v = gen_value(r, 2);
        match r.below(4) {
            0 => v[0] = 0,
            1 => {
                v[0] = 0;
                v[1] = 1;
            }
            _ => {}
        }
        return v;
    }
    gen_value(r, n)
}

/// One time in four a hex producer gets a string with one non-hex byte (the classic neighbours of the hex ranges).
fn gen_bad_hex(r: &mut Xoshiro) -> Option<(usize, u8)> {
    if r.chance(1, 4) { Some((r.below(256) as usize, *r.pick(&[b'g', b'G', b'/', b':', b'@', b'`', b' ', b'x', 0x00, 0x7f]))) } else { None }
}

fn gen_bytes(r: &mut Xoshiro, n: usize) -> Vec<u8> {
    let mut b = vec![0u8; n];
    match r.below(8) {
        0 => {}
        1 => b[0] = 1,          // odd/non-zero as LE, even as BE
        2 => b[n - 1] = 1,      // odd as BE, even as LE
        3 => {
            b[0] = 1;
            b[n - 1] = 2;
        }
        4 => {
            b[0] = 2;
            b[n - 1] = 1;
        }
        5 => b.fill(0xff),
        6 => {
            r.fill(&mut b);
            b[0] |= 1;
            b[n - 1] &= !1;
        }
        _ => r.fill(&mut b),
    }
    b
}

const CARRIERS: [Carrier; 6] = [Carrier::Limb, Carrier::U1, Carrier::U2, Carrier::U4, Carrier::I2, Carrier::Boxed];
const HOWS: [How; 21] = [
    How::New,
    How::To,
    How::ToExpect,
    How::ToUnwrap,
    How::ToCtOption,
    How::NewUnwrap,
    How::FromU8,
    How::FromU16,
    How::FromU32,
    How::FromU64,
    How::FromU128,
    How::FromStd,
    How::One,
    How::Max,
    How::Default,
    How::FromBeBytes,
    How::FromLeBytes,
    How::FromBeByteArray,
    How::FromLeByteArray,
    How::FromBeHex,
    How::FromLeHex,
];

fn gen_rng_tape(r: &mut Xoshiro, n: usize) -> TapePlan {
    let uni = Seg::Uniform { seed: r.next(), len: 4096 };
    let segs = match r.below(8) {
        0 => vec![uni],
        1 | 2 => vec![Seg::Const { byte: 0, len: 8 * r.below(3 * n as u64 + 1) }, uni],
        3 => vec![Seg::Repeat { words: vec![r.next() & !1, 0], times: 64 }],
        4 => vec![Seg::Const { byte: 0, len: 1024 }],
        5 => vec![Seg::Const { byte: 0, len: 8 * r.below(3 * n as u64 + 1) }, Seg::Words { words: vec![2, 4, 0, 6] }, uni],
        6 => vec![Seg::Uniform { seed: r.next(), len: r.below(8 * n as u64 + 1) }],
        _ => vec![Seg::Const { byte: 0, len: 8 * n as u64 - 1 }, Seg::Script { bytes: vec![0x80] }, uni],
    };
    TapePlan { segs, fail_at_call: if r.chance(1, 6) { Some(r.below(2 * n as u64 + 2)) } else { None }, fail_at_byte: None }
}

pub struct Pool;

impl TypedScenario for Pool {
    type Plan = Plan;
    fn name(&self) -> &'static str {
        "c12-pool"
    }
    fn n_runs(&self, tier: Tier) -> u64 {
        match tier {
            Tier::Quick => 40_000,
            Tier::Thorough => 20_000_000,
        }
    }
    fn generate(&self, seed: u64, _tier: Tier, i: u64) -> Plan {
        let mut r = Xoshiro::new(mix(seed, 0x12, i));
        // swarm: per-run weights over event kinds
        let weights = [r.range(2, 10) as u32, r.below(4) as u32, r.below(4) as u32, r.below(5) as u32, r.below(5) as u32, r.below(4) as u32];
        let n_ops = r.range(4, 32) as usize;
        let mut ops = Vec::with_capacity(n_ops);
        // the first runs enumerate every (carrier, wrapper, producer) pair once with a seeded argument
        if i < 2 * (CARRIERS.len() * HOWS.len()) as u64 {
            let k = (i / 2) as usize;
            let wr = if i % 2 == 0 { Wr::Nz } else { Wr::Odd };
            let carrier = CARRIERS[k / HOWS.len()];
            let how = HOWS[k % HOWS.len()];
            let n = if carrier == Carrier::Boxed { r.range(1, 4) as usize } else { limbs_of(carrier) };
            for _ in 0..8 {
                ops.push(Op::Produce { carrier, wr, how, words: gen_arg(&mut r, how, n), bytes: gen_bytes(&mut r, 8 * n), bad_hex: gen_bad_hex(&mut r) });
            }
            return Plan { ops };
        }
        for _ in 0..n_ops {
            let carrier = *r.pick(&CARRIERS);
            let wr = if r.chance(1, 2) { Wr::Nz } else { Wr::Odd };
            if carrier == Carrier::Boxed && r.chance(1, 16) {
                // a BoxedUint without any limb: its value is zero, so neither wrapper may accept it
                ops.push(Op::Produce { carrier, wr, how: if wr == Wr::Odd && r.chance(1, 2) { How::To } else { How::New }, words: vec![], bytes: vec![], bad_hex: None });
                continue;
            }
            let n = if carrier == Carrier::Boxed { r.range(1, 4) as usize } else { limbs_of(carrier) };
            let mut pre: Vec<Op> = Vec::new();
            let op = match r.weighted(&weights) {
                0 => {
                    let how = *r.pick(&HOWS);
                    Op::Produce { carrier, wr, how, words: gen_arg(&mut r, how, n), bytes: gen_bytes(&mut r, 8 * n), bad_hex: gen_bad_hex(&mut r) }
                }
                1 if r.chance(1, 4) => {
                    if r.chance(1, 2) {
                        // two boxed wrappers of different precisions, the source with its value in the high limbs only
                        let wr = if r.chance(3, 4) { Wr::Nz } else { Wr::Odd };
                        let (ns, nd) = (r.range(2, 4) as usize, r.range(1, 3) as usize);
                        let mut src_words = vec![0u64; ns];
                        src_words[ns - 1] = r.next() | 1;
                        if wr == Wr::Odd || r.chance(1, 3) {
                            src_words[0] = r.next() | 1;
                        }
                        let mut dst_words = gen_value(&mut r, nd);
                        dst_words[0] |= 1;
                        pre.push(Op::Produce { carrier: Carrier::Boxed, wr, how: How::New, words: src_words, bytes: vec![], bad_hex: None });
                        pre.push(Op::Produce { carrier: Carrier::Boxed, wr, how: How::New, words: dst_words, bytes: vec![], bad_hex: None });
                        Op::CloneFrom { dst: 0, src: 0, recent: true }
                    } else {
                        Op::CloneFrom { dst: r.below(64) as usize, src: r.below(64) as usize, recent: false }
                    }
                }
                1 if r.chance(1, 5) => {
                    let limbs = *r.pick(&[9usize, 10, 12, 15]);
                    let odd = r.chance(1, 2);
                    let mut mk = |r: &mut Xoshiro| {
                        // value classes that matter for a limb-wise selection: only high limbs set, only one limb set, random
                        let mut w = match r.below(4) {
                            0 => {
                                let mut w = vec![0u64; limbs];
                                w[limbs - 1] = r.next() | 1;
                                w
                            }
                            1 => {
                                let mut w = vec![0u64; limbs];
                                let i = r.below(limbs as u64) as usize;
                                w[i] = r.next() | 1;
                                w
                            }
                            2 => {
                                let mut w = vec![0u64; limbs];
                                for x in w.iter_mut().skip(8) {
                                    *x = r.next();
                                }
                                w[limbs - 1] |= 1;
                                w
                            }
                            _ => (0..limbs).map(|_| r.next()).collect(),
                        };
                        if odd {
                            w[0] |= 1;
                        }
                        w
                    };
                    let (a, b) = (mk(&mut r), mk(&mut r));
                    Op::SelectWide { limbs, odd, a, b, choice: r.chance(1, 2), form: r.below(3) as u8 }
                }
                1 => Op::Select { a: r.below(64) as usize, b: r.below(64) as usize, choice: r.chance(1, 2), form: r.below(3) as u8 },
                2 => Op::Convert {
                    src: r.below(64) as usize,
                    kind: *r.pick(&[Conv::AsNzRef, Conv::AsRefNz, Conv::AbsSign, Conv::Widen, Conv::WidenSame, Conv::WidenSmaller, Conv::Widen, Conv::ToBoxed, Conv::ToBoxedRef, Conv::ViaMontyParams, Conv::ViaMontyParamsVartime, Conv::ViaMontyParamsSelect, Conv::Clone]),
                },
                3 => Op::Random { carrier, wr, infallible: r.chance(1, 2), bits: *r.pick(&[0u32, 1, 2, 63, 64, 65, 128, 200]), tape: gen_rng_tape(&mut r, n.max(1)) },
                4 => {
                    let nf = *r.pick(&[0usize, 0, 1, 1, 2]);
                    let len = 8 * n.max(1) + 8;
                    let faults = (0..nf)
                        .map(|_| match r.below(6) {
                            0 => Fault::Truncate(r.below(len as u64) as usize),
                            1 => Fault::ZeroTail(r.range(1, len as u64) as usize),
                            2 => Fault::FlipBit(r.below(8 * len as u64) as usize),
                            3 => Fault::FlipBit(r.below(16) as usize),
                            4 => Fault::SetAt(r.below(len as u64) as usize, 0),
                            _ => Fault::DropByte(r.below(len as u64) as usize),
                        })
                        .collect();
                    Op::Deser {
                        carrier,
                        wr,
                        format: *r.pick(&[DeFormat::SimBin, DeFormat::SimHuman, DeFormat::Bincode, DeFormat::Json]),
                        words: gen_value(&mut r, n.max(1)),
                        faults,
                        style: *r.pick(&[Delivery::Transient, Delivery::Borrowed, Delivery::Owned]),
                        fail_at: if r.chance(1, 10) { Some(r.below(2) as usize) } else { None },
                        in_place: r.chance(1, 4),
                    }
                }
                _ => Op::Consume {
                    src: r.below(64) as usize,
                    cons: *r.pick(&[Cons::DivRem, Cons::Rem, Cons::DivOp, Cons::RemOp, Cons::DivRemVartime, Cons::MontyNew, Cons::MontyNewVartime, Cons::InvOddMod, Cons::NzRefThenDivide]),
                    operand: gen_value(&mut r, 4),
                    rel: if r.chance(1, 2) { r.range(1, 5) as u8 } else { 0 },
                },
            };
            ops.extend(pre);
            ops.push(op);
        }
        Plan { ops }
    }
    fn exec(&self, plan: &Plan, out: &mut RunOut) {
        exec(plan, out);
    }
    fn shrink(&self, p: &Plan) -> Vec<Plan> {
        let mut v = Vec::new();
        for i in 0..p.ops.len() {
            if p.ops.len() > 1 {
                let mut q = p.clone();
                q.ops.remove(i);
                v.push(q);
            }
        }
        if p.ops.len() == 1 {
            match &p.ops[0] {
                Op::Produce { carrier, wr, how, words, bytes, bad_hex } => {
                    for i in 0..words.len() {
                        if words[i] > 2 {
                            let mut w = words.clone();
                            w[i] = words[i] & 1 | if i == 0 { 0 } else { 0 };
                            v.push(Plan { ops: vec![Op::Produce { carrier: *carrier, wr: *wr, how: *how, words: w, bytes: bytes.clone(), bad_hex: *bad_hex }] });
                        }
                    }
                    for i in 1..bytes.len().saturating_sub(1) {
                        if bytes[i] != 0 {
                            let mut b = bytes.clone();
                            b[i] = 0;
                            v.push(Plan { ops: vec![Op::Produce { carrier: *carrier, wr: *wr, how: *how, words: words.clone(), bytes: b, bad_hex: *bad_hex }] });
                        }
                    }
                }
                Op::Deser { carrier, wr, format, words, faults, style, fail_at, in_place } => {
                    for i in 0..faults.len() {
                        let mut f = faults.clone();
                        f.remove(i);
                        v.push(Plan { ops: vec![Op::Deser { carrier: *carrier, wr: *wr, format: *format, words: words.clone(), faults: f, style: *style, fail_at: *fail_at, in_place: *in_place }] });
                    }
                }
                _ => {}
            }
        }
        v
    }
}
