//! C16 — scenario `c16-slices`: byte and hex records on the simulated storage medium, read back through the
//! slice / hex decoders.
//!
//! write: a value of a stated size is encoded by the library (`to_be_bytes` / `to_le_bytes`, fixed and boxed) into a
//! record of the stated size (`BYTES` for a fixed width, `ceil(precision / 8)` for a boxed precision, `2 * BYTES`
//! hex digits). The medium then tears, extends or corrupts the record. read: `Uint::from_{be,le}_slice`,
//! `Uint::from_{be,le}_hex`, `Int::from_be_hex`, `BoxedUint::from_{be,le}_slice(.., precision)`,
//! `BoxedUint::from_be_hex(.., precision)`.
//!
//! Oracle = the documentation of the decoders and the property's "accept exactly well-formed input of the stated
//! size": a returned value must be the positional value of a record of exactly the stated size; the boxed slice
//! decoders must answer `InputSize` exactly when the record is longer than `ceil(precision / 8)` and `Precision`
//! exactly when the positional value needs more than `precision` bits. The fixed-width decoders and the hex decoders
//! refuse by panicking (documented for hex, asserted for slices): a panic is an accepted refusal of a record the
//! reference refuses, never of one it accepts.

use crate::core::{RunOut, Tier, TypedScenario};
use crate::dev::medium::{Fault, hex};
use crate::monitor::{Guarded, guard};
use crate::prng::{Xoshiro, mix};
use crate::util::{big, hexw, words as to_words};
use crate::with_limbs;
use crypto_bigint::{BoxedUint, DecodeError, Int, Uint};
use num_bigint::BigUint;
use serde::{Deserialize, Serialize};
use serde_json::Value;

#[derive(Clone, Copy, Debug, Serialize, Deserialize, PartialEq, Eq)]
pub enum Dec {
    BoxedBe,
    BoxedLe,
    FixedBe,
    FixedLe,
    FixedBeHex,
    FixedLeHex,
    IntBeHex,
    BoxedBeHex,
    /// not a byte record: `BoxedUint::from_words` fed by a simulator-owned word source (an `Iterator<Item = Word>` whose
    /// `size_hint` is exact, loose or absent — all legal), read back through `to_words` / `as_words`
    BoxedFromWords,
}

impl Dec {
    fn is_hex(self) -> bool {
        matches!(self, Dec::FixedBeHex | Dec::FixedLeHex | Dec::IntBeHex | Dec::BoxedBeHex)
    }
    fn is_le(self) -> bool {
        matches!(self, Dec::BoxedLe | Dec::FixedLe | Dec::FixedLeHex)
    }
    fn is_boxed_slice(self) -> bool {
        matches!(self, Dec::BoxedBe | Dec::BoxedLe)
    }
    fn api(self) -> &'static str {
        match self {
            Dec::BoxedBe => "BoxedUint::from_be_slice",
            Dec::BoxedLe => "BoxedUint::from_le_slice",
            Dec::FixedBe => "Uint::from_be_slice",
            Dec::FixedLe => "Uint::from_le_slice",
            Dec::FixedBeHex => "Uint::from_be_hex",
            Dec::FixedLeHex => "Uint::from_le_hex",
            Dec::IntBeHex => "Int::from_be_hex",
            Dec::BoxedBeHex => "BoxedUint::from_be_hex",
            Dec::BoxedFromWords => "BoxedUint::from_words",
        }
    }
}

#[derive(Clone, Debug, Serialize, Deserialize, PartialEq, Eq)]
pub struct SlicePlan {
    pub dec: Dec,
    /// fixed width in limbs (fixed and hex decoders); for the boxed slice decoders: ceil(precision / 64), at least 1
    pub limbs: usize,
    /// precision the record is written for, in bits (boxed slice decoders; otherwise 64 * limbs)
    pub precision: u32,
    /// precision handed to the boxed decoder
    pub read_precision: u32,
    /// the value, little-endian words, below 2^precision
    pub words: Vec<u64>,
    pub upper: bool,
    /// `BoxedFromWords` only: what the word source answers to `size_hint` (see `SimWordSource`)
    #[serde(default)]
    pub hint: u8,
    pub faults: Vec<Fault>,
    /// enumerate every record length 0 ..= stated size + 9 (torn and over-long records) instead of `faults`
    #[serde(default)]
    pub sweep: bool,
    /// before `faults`: 1 = the record is on the medium twice in a row, 2 / 3 = one limb's worth of stale data after /
    /// before it (a neighbouring, longer record)
    #[serde(default)]
    pub glue: u8,
    /// a single explicit record (set by the sweep when it reports, so that the replay is one decode)
    #[serde(default, skip_serializing_if = "Option::is_none")]
    pub record: Option<Vec<u8>>,
}

fn plan_json(p: &SlicePlan, record: Option<&[u8]>) -> Option<Value> {
    let mut q = p.clone();
    if let Some(r) = record {
        q.record = Some(r.to_vec());
        q.faults.clear();
        q.sweep = false;
        q.glue = 0;
    }
    serde_json::to_value(q).ok()
}

#[derive(Clone, Debug, PartialEq, Eq)]
enum Want {
    Value(BigUint),
    InputSize,
    Precision,
    /// fixed / hex: any refusal (a panic, or `None` for the boxed hex decoder)
    Refuse(&'static str),
}

fn hexval(c: u8) -> Option<u8> {
    match c {
        b'0'..=b'9' => Some(c - b'0'),
        b'a'..=b'f' => Some(c - b'a' + 10),
        b'A'..=b'F' => Some(c - b'A' + 10),
        _ => None,
    }
}

/// What the documentation says about this record.
fn reference(p: &SlicePlan, rec: &[u8]) -> Want {
    let stated_bytes = 8 * p.limbs;
    if p.dec.is_hex() {
        if rec.len() != 2 * stated_bytes {
            return Want::Refuse("wrong-length");
        }
        let mut bytes = Vec::with_capacity(stated_bytes);
        for pair in rec.chunks(2) {
            match (hexval(pair[0]), hexval(pair[1])) {
                (Some(h), Some(l)) => bytes.push(h << 4 | l),
                _ => return Want::Refuse("non-hex"),
            }
        }
        return Want::Value(if p.dec.is_le() { BigUint::from_bytes_le(&bytes) } else { BigUint::from_bytes_be(&bytes) });
    }
    let v = if p.dec.is_le() { BigUint::from_bytes_le(rec) } else { BigUint::from_bytes_be(rec) };
    if p.dec.is_boxed_slice() {
        let rp = p.read_precision as usize;
        if rec.is_empty() && rp == 0 {
            return Want::Value(BigUint::default());
        }
        if rec.len() > rp.div_ceil(8) {
            return Want::InputSize;
        }
        if v.bits() > rp as u64 {
            return Want::Precision;
        }
        Want::Value(v)
    } else if rec.len() != stated_bytes {
        Want::Refuse("wrong-length")
    } else {
        Want::Value(v)
    }
}

#[derive(Debug)]
enum Got {
    Value(Vec<u64>, u32),
    Err(DecodeError),
    None,
}

fn boxed_words(x: &BoxedUint) -> Vec<u64> {
    x.as_words().to_vec()
}

fn decode(p: &SlicePlan, rec: &[u8]) -> Option<Guarded<Got>> {
    let s = if p.dec.is_hex() {
        match std::str::from_utf8(rec) {
            Ok(s) => s,
            // not a &str: the type system keeps it away from the decoder
            Err(_) => return None,
        }
    } else {
        ""
    };
    Some(match p.dec {
        Dec::BoxedFromWords => return None,
        Dec::BoxedBe => guard(|| match BoxedUint::from_be_slice(rec, p.read_precision) {
            Ok(x) => Got::Value(boxed_words(&x), x.bits_precision()),
            Err(e) => Got::Err(e),
        }),
        Dec::BoxedLe => guard(|| match BoxedUint::from_le_slice(rec, p.read_precision) {
            Ok(x) => Got::Value(boxed_words(&x), x.bits_precision()),
            Err(e) => Got::Err(e),
        }),
        Dec::BoxedBeHex => guard(|| match Option::<BoxedUint>::from(BoxedUint::from_be_hex(s, 64 * p.limbs as u32)) {
            Some(x) => Got::Value(boxed_words(&x), x.bits_precision()),
            None => Got::None,
        }),
        _ => with_limbs!(p.limbs, N, {
            match p.dec {
                Dec::FixedBe => guard(|| Got::Value(Uint::<N>::from_be_slice(rec).to_words().to_vec(), 64 * N as u32)),
                Dec::FixedLe => guard(|| Got::Value(Uint::<N>::from_le_slice(rec).to_words().to_vec(), 64 * N as u32)),
                Dec::FixedBeHex => guard(|| Got::Value(Uint::<N>::from_be_hex(s).to_words().to_vec(), 64 * N as u32)),
                Dec::FixedLeHex => guard(|| Got::Value(Uint::<N>::from_le_hex(s).to_words().to_vec(), 64 * N as u32)),
                _ => guard(|| Got::Value(Int::<N>::from_be_hex(s).to_words().to_vec(), 64 * N as u32)),
            }
        }, else { return None }),
    })
}

fn show(rec: &[u8], is_hex: bool) -> String {
    let n = rec.len();
    let body = if is_hex { format!("{:?}", String::from_utf8_lossy(&rec[..n.min(80)])) } else { hex(&rec[..n.min(48)]) };
    format!("{}{} ({} bytes)", body, if n > 80 || (!is_hex && n > 48) { "…" } else { "" }, n)
}

fn judge(p: &SlicePlan, rec: &[u8], class: &str, out: &mut RunOut) {
    let want = reference(p, rec);
    let Some(got) = decode(p, rec) else {
        out.count("probe:record-not-utf8-never-reaches-the-decoder");
        return;
    };
    let api = p.dec.api();
    let sig = |e: &str| format!("{}:{}:{}", api, class, e);
    let wclass = match &want {
        Want::Value(_) => "value",
        Want::InputSize => "input-size",
        Want::Precision => "precision",
        Want::Refuse(_) => "refuse",
    };
    match got {
        Guarded::Done(Got::Value(w, prec)) => {
            out.ev(&format!("dec/{}/{}/ok", api, rec.len()));
            out.digest.words(&w);
            match &want {
                Want::Value(v) => {
                    if big(&w) != *v {
                        out.viol("C16/slice-wrong-value", sig("value"), format!("{} decoded {} as {}, positional value 0x{:x}", api, show(rec, p.dec.is_hex()), hexw(&w), v), plan_json(p, Some(rec)));
                    }
                    if p.dec.is_boxed_slice() && p.read_precision > 0 && prec != p.read_precision.div_ceil(64) * 64 {
                        out.viol("C16/slice-precision", sig("precision"), format!("{} with precision {} returned a value of precision {}", api, p.read_precision, prec), plan_json(p, Some(rec)));
                    }
                    out.count("probe:slice-accepted-and-checked");
                }
                other => {
                    out.viol(
                        "C16/slice-not-strict",
                        sig(match other {
                            Want::InputSize => "too-long",
                            Want::Precision => "exceeds-precision",
                            Want::Refuse(r) => r,
                            Want::Value(_) => unreachable!(),
                        }),
                        format!("{} accepted {} as {} (precision {}); the documentation refuses it ({:?})", api, show(rec, p.dec.is_hex()), hexw(&w), if p.dec.is_boxed_slice() { p.read_precision } else { 64 * p.limbs as u32 }, other),
                        plan_json(p, Some(rec)),
                    );
                }
            }
        }
        Guarded::Done(Got::Err(e)) => {
            out.ev(&format!("dec/{}/{}/{:?}", api, rec.len(), e));
            let ok = matches!((&want, e), (Want::InputSize, DecodeError::InputSize) | (Want::Precision, DecodeError::Precision));
            if !ok {
                match &want {
                    Want::Value(v) => out.viol("C16/slice-rejects-good", sig(&format!("{:?}", e)), format!("{} refused {} with {:?} at precision {}; it is well-formed and means 0x{:x}", api, show(rec, false), e, p.read_precision, v), plan_json(p, Some(rec))),
                    w => out.viol("C16/slice-error-kind", sig(&format!("{:?}", e)), format!("{} answered {:?} for {} at precision {}; documented answer {:?}", api, e, show(rec, false), p.read_precision, w), plan_json(p, Some(rec))),
                }
            }
            out.count("probe:slice-refused");
        }
        Guarded::Done(Got::None) => {
            out.ev(&format!("dec/{}/{}/none", api, rec.len()));
            if let Want::Value(v) = &want {
                out.viol("C16/slice-rejects-good", sig("none"), format!("{} refused {}; it is well-formed and means 0x{:x}", api, show(rec, true), v), plan_json(p, Some(rec)));
            }
            out.count("probe:slice-refused");
        }
        Guarded::Panic(pi) => {
            out.ev(&format!("dec/{}/{}/panic", api, rec.len()));
            match &want {
                Want::Value(v) => out.viol("C16/slice-rejects-good", sig(&format!("panic:{}", pi.location)), format!("{} panicked at {} ({}) on {}; it is well-formed and means 0x{:x}", api, pi.location, pi.message, show(rec, p.dec.is_hex()), v), plan_json(p, Some(rec))),
                Want::Refuse(_) => out.count("probe:slice-refused-by-panic"),
                w => {
                    // the boxed slice decoders return Result: a panic is neither of the two documented errors
                    out.viol("C16/slice-error-kind", sig(&format!("panic:{}", pi.location)), format!("{} panicked at {} ({}) on {} at precision {}; documented answer {:?}", api, pi.location, pi.message, show(rec, false), p.read_precision, w), plan_json(p, Some(rec)));
                    out.viol("C11/unexpected-panic", format!("slices:{}:{}", api, pi.location), format!("{} returns Result but unwound at {} ({})", api, pi.location, pi.message), plan_json(p, Some(rec)));
                }
            }
        }
        Guarded::Budget => {}
    }
    out.state(format!("slices|{}|{}|{}|p%64={}", api, class, wclass, if p.dec.is_boxed_slice() { (p.read_precision % 64).min(9) } else { 0 }));
}

/// The record as the library writes it, cut to the stated size; checks that the writer is positional.
fn write_record(p: &SlicePlan, out: &mut RunOut) -> Option<Vec<u8>> {
    let v = big(&p.words);
    if p.dec.is_hex() {
        // reference text (the fmt traits are checked by `c16-print`)
        let mut bytes = v.to_bytes_le();
        bytes.resize(8 * p.limbs, 0);
        if !p.dec.is_le() {
            bytes.reverse();
        }
        let s = hex(&bytes);
        return Some(if p.upper { s.to_uppercase() } else { s }.into_bytes());
    }
    let mut le = v.to_bytes_le();
    if p.dec.is_boxed_slice() {
        let nl = p.words.len();
        let words = p.words.clone();
        let le_route = p.dec.is_le();
        let full = match guard(move || {
            let x = BoxedUint::from_words(words);
            if le_route { x.to_le_bytes() } else { x.to_be_bytes() }
        }) {
            Guarded::Done(b) => b.to_vec(),
            Guarded::Panic(pi) => {
                out.viol("C11/unexpected-panic", format!("slices:BoxedUint::to_bytes:{}", pi.location), format!("BoxedUint byte encoding unwound at {} ({})", pi.location, pi.message), plan_json(p, None));
                return None;
            }
            Guarded::Budget => return None,
        };
        le.resize(8 * nl, 0);
        let mut want = le.clone();
        if !le_route {
            want.reverse();
        }
        if full != want {
            out.viol("C16/positional", format!("BoxedUint::to_{}_bytes", if le_route { "le" } else { "be" }), format!("BoxedUint {} encodes as {}, positional expansion {}", hexw(&p.words), hex(&full), hex(&want)), plan_json(p, None));
            return None;
        }
        let stated = (p.precision as usize).div_ceil(8);
        Some(if le_route { full[..stated.min(full.len())].to_vec() } else { full[full.len() - stated.min(full.len())..].to_vec() })
    } else {
        with_limbs!(p.limbs, N, {
            let mut w = [0u64; N];
            w.copy_from_slice(&p.words[..N]);
            let le_route = p.dec.is_le();
            let got = match guard(move || {
                let x = Uint::<N>::from_words(w);
                if le_route { x.to_le_bytes()[..].to_vec() } else { x.to_be_bytes()[..].to_vec() }
            }) {
                Guarded::Done(b) => b,
                Guarded::Panic(pi) => {
                    out.viol("C11/unexpected-panic", format!("slices:Uint::to_bytes:{}", pi.location), format!("Uint byte encoding unwound at {} ({})", pi.location, pi.message), plan_json(p, None));
                    return None;
                }
                Guarded::Budget => return None,
            };
            le.resize(8 * N, 0);
            let mut want = le.clone();
            if !le_route {
                want.reverse();
            }
            if got != want {
                out.viol("C16/positional", format!("Encoding::to_{}_bytes:{}", if le_route { "le" } else { "be" }, if le_route { "le" } else { "be" }), format!("Uint {} encodes as {}, positional expansion {}", hexw(&p.words), hex(&got), hex(&want)), plan_json(p, None));
                return None;
            }
            Some(got)
        }, else { None })
    }
}

/// A word source owned by the simulator. Every `size_hint` it gives is within the `Iterator` contract
/// (lower <= remaining <= upper); only policy 0 is exact.
pub struct SimWordSource {
    words: Vec<u64>,
    at: usize,
    policy: u8,
    pub hints_asked: u32,
}

impl Iterator for SimWordSource {
    type Item = u64;
    fn next(&mut self) -> Option<u64> {
        let w = self.words.get(self.at).copied();
        if w.is_some() {
            self.at += 1;
        }
        w
    }
    fn size_hint(&self) -> (usize, Option<usize>) {
        let rem = self.words.len() - self.at;
        match self.policy % 6 {
            0 => (rem, Some(rem)),
            1 => (0, None),
            2 => (rem / 2, None),
            3 => (0, Some(rem)),
            4 => (rem.saturating_sub(1), Some(rem + 3)),
            _ => (rem.min(1), Some(usize::MAX)),
        }
    }
}

fn exec_from_words(p: &SlicePlan, out: &mut RunOut) {
    let words = p.words.clone();
    let policy = p.hint;
    let g = guard(move || {
        let x = BoxedUint::from_words(SimWordSource { words, at: 0, policy, hints_asked: 0 });
        (x.to_words().to_vec(), x.as_words().to_vec(), x.bits_precision())
    });
    out.ev(&format!("from_words/{}/{}", p.words.len(), p.hint % 6));
    out.state(format!("slices|BoxedUint::from_words|limbs{}|hint{}", p.words.len().min(9), p.hint % 6));
    match g {
        Guarded::Done((tw, aw, prec)) => {
            out.digest.words(&tw);
            if tw != p.words || aw != p.words || prec != 64 * p.words.len() as u32 {
                out.viol(
                    "C16/words-roundtrip",
                    format!("BoxedUint::from_words:hint{}", p.hint % 6),
                    format!("from_words of {} words {} through a source with size_hint policy {} reads back as {} ({} bits of precision)", p.words.len(), hexw(&p.words), p.hint % 6, hexw(&tw), prec),
                    plan_json(p, None),
                );
            }
            out.count("probe:word-source-checked");
            if p.hint % 6 != 0 {
                out.count("fault:word-source-inexact-size-hint");
            }
        }
        Guarded::Panic(pi) => {
            out.viol("C11/unexpected-panic", format!("slices:BoxedUint::from_words:{}", pi.location), format!("from_words unwound at {} ({})", pi.location, pi.message), plan_json(p, None));
        }
        Guarded::Budget => {}
    }
}

fn exec(p: &SlicePlan, out: &mut RunOut) {
    if p.dec == Dec::BoxedFromWords {
        exec_from_words(p, out);
        return;
    }
    if let Some(rec) = &p.record {
        judge(p, rec, "replayed-record", out);
        return;
    }
    let Some(rec) = write_record(p, out) else { return };
    out.ev(&format!("write/{}/{}", p.dec.api(), rec.len()));
    if p.sweep {
        // every torn length, and up to nine bytes of stale data at either end
        for k in 0..rec.len() {
            out.count("fault:truncate");
            judge(p, &rec[..k], "torn", out);
            if k > 0 {
                judge(p, &rec[rec.len() - k..], "torn-front", out);
            }
        }
        let fillers: &[u8] = if p.dec.is_hex() { b"0f" } else { &[0x00, 0xff] };
        for extra in 1..=9usize {
            for &f in fillers {
                out.count("fault:stale-bytes");
                let mut longer = rec.clone();
                longer.extend(std::iter::repeat_n(f, extra));
                judge(p, &longer, "stale-tail", out);
                let mut longer = vec![f; extra];
                longer.extend_from_slice(&rec);
                judge(p, &longer, "stale-head", out);
            }
        }
        // whole units of stale data: one, two limbs' worth at either end, and the record written twice in a row
        let unit = if p.dec.is_hex() { 16 } else { 8 };
        for &f in fillers {
            for units in 1..=2usize {
                out.count("fault:stale-limb");
                let mut longer = rec.clone();
                longer.extend(std::iter::repeat_n(f, unit * units));
                judge(p, &longer, "stale-limb-tail", out);
                let mut longer = vec![f; unit * units];
                longer.extend_from_slice(&rec);
                judge(p, &longer, "stale-limb-head", out);
            }
        }
        out.count("fault:record-written-twice");
        let mut twice = rec.clone();
        twice.extend_from_slice(&rec);
        judge(p, &twice, "written-twice", out);
        out.count("probe:all-record-lengths-enumerated");
        return;
    }
    let mut cur = rec.clone();
    let mut fired: Vec<&'static str> = Vec::new();
    {
        let unit = if p.dec.is_hex() { 16 } else { 8 };
        let filler = if p.dec.is_hex() { if p.upper { b'F' } else { b'0' } } else if p.upper { 0xff } else { 0x00 };
        match p.glue {
            1 => {
                cur.extend_from_slice(&rec);
                out.count("fault:record-written-twice");
                fired.push("written-twice");
            }
            2 => {
                cur.extend(std::iter::repeat_n(filler, unit));
                out.count("fault:stale-limb");
                fired.push("stale-limb-tail");
            }
            3 => {
                let mut t = vec![filler; unit];
                t.extend_from_slice(&cur);
                cur = t;
                out.count("fault:stale-limb");
                fired.push("stale-limb-head");
            }
            _ => {}
        }
    }
    for f in &p.faults {
        if f.apply(&mut cur) {
            out.count(&format!("fault:{}", f.kind()));
            fired.push(f.kind());
        }
    }
    let class = if fired.is_empty() { "intact".to_string() } else { fired.join("+") };
    if fired.is_empty() && !p.dec.is_boxed_slice() || (fired.is_empty() && p.read_precision == p.precision) {
        // the inverse direction proper: what the library wrote, it must read back as the same value
        match decode(p, &cur) {
            Some(Guarded::Done(Got::Value(w, _))) if big(&w) == big(&p.words) => out.count("probe:slice-roundtrip-checked"),
            Some(other) => out.viol("C16/slice-roundtrip", format!("{}:roundtrip", p.dec.api()), format!("{} of the record written for {} (precision {}) gave {:?}", p.dec.api(), hexw(&p.words), p.precision, other), plan_json(p, None)),
            None => {}
        }
    }
    judge(p, &cur, &class, out);
}

fn gen_precision(r: &mut Xoshiro, tier: Tier) -> u32 {
    match r.below(10) {
        0 => 0,
        1 => *r.pick(&[1u32, 7, 8, 9, 63, 64, 65]),
        2 | 3 => 64 * r.range(1, 8) as u32,
        4 => (64 * r.range(1, 8) as u32).saturating_sub(r.range(1, 9) as u32),
        5 => 64 * r.range(1, 8) as u32 + r.range(1, 9) as u32,
        6 => 8 * r.range(1, 65) as u32,
        7 if tier == Tier::Thorough => r.range(521, 2100) as u32,
        _ => r.range(0, 520) as u32,
    }
}

fn gen_value(r: &mut Xoshiro, bits: u32, nwords: usize) -> Vec<u64> {
    if bits == 0 {
        return vec![0; nwords];
    }
    let top = crate::util::pow2(bits);
    let one = BigUint::from(1u8);
    let v: BigUint = match r.below(10) {
        0 => BigUint::default(),
        1 => one,
        2 => &top - 1u8,
        3 => crate::util::pow2(bits - 1),
        4 => BigUint::from(r.below(256)) << (8 * r.below((bits as u64).div_ceil(8))) as usize,
        5 => {
            // one all-zero limb inside
            let mut w = crate::c16::gen_words(r, nwords);
            let i = r.below(nwords as u64) as usize;
            w[i] = 0;
            big(&w)
        }
        _ => big(&crate::c16::gen_words(r, nwords)),
    };
    to_words(&(v % top), nwords)
}

fn gen_fault(r: &mut Xoshiro, len: usize, is_hex: bool) -> Fault {
    let l = len.max(1) as u64;
    match r.below(11) {
        0 | 1 => Fault::Truncate(r.below(l) as usize),
        2 => Fault::ZeroTail(r.range(1, l) as usize),
        3 => Fault::FlipBit(r.below(8 * l) as usize),
        4 => Fault::DropByte(r.below(l) as usize),
        5 => Fault::DupByte(r.below(l) as usize),
        6 => {
            let n = r.range(1, 9) as usize;
            Fault::Append(if is_hex { r.bytes(n).iter().map(|b| b"0123456789abcdefABCDEFg/:@G`\x00 "[(*b as usize) % 30]).collect() } else { r.bytes(n) })
        }
        7 => Fault::Prepend(if is_hex { *r.pick(&[b'0', b'f', b' ', b'+']) } else { *r.pick(&[0u8, 0xff, 1, 0x80]) }),
        8 => Fault::InsertAt(r.below(l + 1) as usize, if is_hex { *r.pick(&[b'0', b'_', b'f']) } else { r.below(256) as u8 }),
        _ => Fault::SetAt(r.below(l) as usize, if is_hex { *r.pick(&[b'g', b'G', b'/', b':', b'@', b'`', 0x00, b'x', b' ', b'0', b'F']) } else { r.below(256) as u8 }),
    }
}

pub struct SliceSc;

impl TypedScenario for SliceSc {
    type Plan = SlicePlan;
    fn name(&self) -> &'static str {
        "c16-slices"
    }
    fn n_runs(&self, tier: Tier) -> u64 {
        match tier {
            Tier::Quick => 40_000,
            Tier::Thorough => 10_000_000,
        }
    }
    fn generate(&self, seed: u64, tier: Tier, i: u64) -> SlicePlan {
        let mut r = Xoshiro::new(mix(seed, 0x1651, i));
        if r.chance(1, 16) {
            let n = r.range(0, 9) as usize;
            let words = if n == 0 { vec![] } else { crate::c16::gen_words(&mut r, n) };
            return SlicePlan { dec: Dec::BoxedFromWords, limbs: n, precision: 64 * n as u32, read_precision: 64 * n as u32, words, upper: false, hint: r.below(6) as u8, faults: vec![], sweep: false, glue: 0, record: None };
        }
        let dec = *r.pick(&[Dec::BoxedBe, Dec::BoxedBe, Dec::BoxedLe, Dec::BoxedLe, Dec::FixedBe, Dec::FixedLe, Dec::FixedBeHex, Dec::FixedLeHex, Dec::IntBeHex, Dec::BoxedBeHex]);
        let (limbs, precision) = if dec.is_boxed_slice() {
            let p = gen_precision(&mut r, tier);
            ((p as usize).div_ceil(64).max(1), p)
        } else {
            let l = if dec == Dec::BoxedBeHex { r.range(1, 9) as usize } else { *r.pick(&[1usize, 2, 3, 4, 5, 6, 7, 8, 16]) };
            (l, 64 * l as u32)
        };
        let words = gen_value(&mut r, precision, limbs);
        let read_precision = if !dec.is_boxed_slice() || r.chance(3, 5) {
            precision
        } else {
            let p = precision as i64;
            let c = *r.pick(&[p - 1, p + 1, p - 7, p - 8, p + 8, p + 64, p - 64, p / 2, 0, (p + 63) / 64 * 64, p / 64 * 64, (p + 7) / 8 * 8]);
            c.clamp(0, 4096) as u32
        };
        let stated = if dec.is_hex() { 16 * limbs } else { (precision as usize).div_ceil(8) };
        let sweep = r.chance(1, 16);
        let mut faults = Vec::new();
        if !sweep {
            for _ in 0..*r.pick(&[0usize, 0, 1, 1, 1, 1, 2]) {
                faults.push(gen_fault(&mut r, stated, dec.is_hex()));
            }
            if dec.is_hex() && stated >= 2 && r.chance(1, 12) {
                // a two-byte UTF-8 character in place of two hex digits: same length, still a &str
                let at = r.below(stated as u64 - 1) as usize;
                faults = vec![Fault::SetAt(at, 0xc3), Fault::SetAt(at + 1, 0xa9)];
            }
        }
        let glue = if !sweep && r.chance(1, 10) { r.range(1, 3) as u8 } else { 0 };
        SlicePlan { dec, limbs, precision, read_precision, words, upper: r.chance(1, 2), hint: 0, faults, sweep, glue, record: None }
    }
    fn exec(&self, plan: &SlicePlan, out: &mut RunOut) {
        exec(plan, out);
    }
    fn shrink(&self, p: &SlicePlan) -> Vec<SlicePlan> {
        let mut v = Vec::new();
        if p.record.is_some() {
            return v;
        }
        for i in 0..p.faults.len() {
            let mut q = p.clone();
            q.faults.remove(i);
            v.push(q);
        }
        if p.glue != 0 {
            let mut q = p.clone();
            q.glue = 0;
            v.push(q);
        }
        for i in 0..p.words.len() {
            if p.words[i] != 0 {
                let mut q = p.clone();
                q.words[i] = 0;
                v.push(q);
            }
        }
        v
    }
}
