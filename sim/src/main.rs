//! cbsim — deterministic simulation with fault injection for crypto-bigint.
//!
//! usage: cbsim run <PROP> [--tier quick|thorough] [--seed N] [--root DIR]
//!        cbsim replay <PROP> <file> [--root DIR]
//! exit: 0 property held on everything explored; 1 violation; 2 harness error.

#![allow(dead_code, non_snake_case, unused_mut)]
mod c08;
mod c12;
mod c16;
mod c16s;
mod c18;
mod c19;
mod core;
mod dev;
mod model;
mod moduli;
mod monitor;
mod prng;
mod util;

use crate::core::{Report, Scenario, Tier};
use std::collections::BTreeMap;
use std::path::PathBuf;

fn real_components() -> Vec<String> {
    [
        "crypto-bigint at /repo working tree (features alloc, rand_core, serde, der, rlp, hybrid-array, zeroize, extra-sizes)",
        "rand_core 0.9 traits (RngCore/TryRngCore blanket impls)",
        "der 0.8.0-rc.1 (Header/Length/UintRef/SliceReader/SliceWriter)",
        "rlp 0.6 (RlpStream/Rlp)",
        "serdect 0.3 visitors, bincode 1.3, serde_json",
        "core::fmt",
    ]
    .iter()
    .map(|s| s.to_string())
    .collect()
}

fn scenarios_for(prop: &str) -> Option<(Vec<Box<dyn Scenario>>, Report)> {
    let base = |property: &'static str, level: &'static str, rule: &str, stubs: &[&str], assumptions: &[&str]| Report {
        property,
        level,
        tier: Tier::Quick,
        seed: 1,
        root: PathBuf::from("/verif"),
        rule: rule.to_string(),
        assumptions: assumptions.iter().map(|s| s.to_string()).collect(),
        real_components: real_components(),
        stub_components: stubs.iter().map(|s| s.to_string()).collect(),
        extra: BTreeMap::new(),
    };
    match prop {
        "C19" => Some((
            vec![Box::new(c19::Script), Box::new(c19::Stat)],
            base(
                "C19",
                "exploration",
                "one run = one plan (API, width, arguments, RNG tape with faults) executed against the real sampler; the first part of the batch enumerates every bit length 0..=BITS+1 per width x {Uint,Int,Boxed,BoxedPrec} x {all-ones, uniform} tapes, the rest is drawn from the per-run seed. distinct_nontrivial = number of distinct abstract states (api, front-end, width, modulus class / bit-length class, tape class, rejection-count bucket, outcome kind) reached; a state is non-trivial by construction because it includes the outcome and tape class",
                &["RNG source (SimRng byte tape: uniform/const/script/words segments; faults fail-at-call, fail-at-byte, exhaustion)", "reference statements R1-R7 (range via num-bigint comparison, documented error table, chi-square with incomplete-gamma tail)"],
                &[
                    "to_words()/from_words() map limb i to weight 2^(64 i) (trusted bridge)",
                    "num-bigint comparison",
                    "uniformity is a statistical judgement: chi-square, reject only below p = 1e-12 per test",
                    "no algorithm-level model of the sampler: value and consumption are never predicted, only compared fixed vs boxed",
                ],
            ),
        )),
        "C08" => Some((
            vec![Box::new(c08::History { faults: false }), Box::new(c08::History { faults: true }), Box::new(c08::MulChain)],
            base(
                "C08",
                "exploration",
                "one run = one history of 4..64 events over 8 registers, executed in lock-step on the ConstMontyForm (table moduli), MontyForm and BoxedMontyForm replicas against the Z/mZ reference model; every touched register of every replica is checked after every event (stored form < m, retrieve == model, replicas agree, boxed precision), all registers again at the end; parameter sets from new / new_vartime / from_const_params / impl_modulus! are compared with each other and with their definitions once per run. A cross-select event selects between a register and a value of a second seeded modulus of the same width (runtime forms carry their parameters): choice 0 gives the register back, choice 1 a value whose parameters equal those built directly for the second modulus and whose add / sub / mul / double / neg / square / halve track that modulus. Batch c08-history is fault-free; batch c08-history-faults adds RNG (try_random on scripted/failing tapes) and persist/restore (serde seam + medium faults) events. distinct_nontrivial = distinct abstract states (operation, modulus class, width class) plus (width, modulus class, replica set)",
                &["reference model ZmodM on num-bigint", "RNG tape for ConstMontyForm::try_random", "serde format + storage medium for persist/restore"],
                &[
                    "to_words()/from_words() bridge; Monty::as_montgomery / as_montgomery() as the read-out of the stored form",
                    "operands stay in the documented domain: all registers of a run share one parameter set; from_montgomery is only fed canonical values",
                    "private parameter fields (one, r2, r3, mod_neg_inv, mod_leading_zeros) are read from the derived Debug rendering; failing to parse it is a harness error (exit 2)",
                    "the const replica only sees the compile-time modulus table (moduli.rs); runtime and boxed replicas also see seeded moduli",
                    "BoxedMontyForm has no selection API: select/swap events are emulated by cloning on that replica",
                ],
            ),
        )),
        "C12" => Some((
            vec![Box::new(c12::Pool)],
            base(
                "C12",
                "exploration",
                "one run = a history of <= 32 events over a pool of NonZero/Odd values for carriers Limb, Uint<1>, Uint<2>, Uint<4>, Int<2>, BoxedUint: produce (every public producer: new, to_nz/to_odd + every exit of the option, new_unwrap, from_u8..u128, From<core::num::NonZero*>, ONE, MAX, Default, from_{be,le}_bytes, from_{be,le}_byte_array, Odd::from_{be,le}_hex), select/assign/swap between members, clone_from between members (boxed: between different precisions), conversions (as_nz_ref, AsRef<NonZero>, abs_sign, widen, Odd<Uint> -> Odd<BoxedUint>, MontyParams::modulus), random generation from a fault-injected RNG tape, deserialization of hand-built and faulted records (sim format, bincode, json), and consumers. The first 252 runs enumerate every (carrier, wrapper, producer) triple. After every event every pool member must be valid; distinct_nontrivial = distinct abstract states (event kind, producer / consumer / conversion, carrier, argument validity class, outcome)",
                &["RNG source (SimRng tapes: zero prefixes, all-even words, all-zero, short tapes, fail-at-call)", "serde format + storage medium faults", "wrapper validity predicate and stated-byte-order decoding (model)"],
                &[
                    "validity is read through as_ref().to_words(): value != 0 / low bit set (trusted bridge)",
                    "Zeroize::zeroize(&mut wrapper) destroys the value by design and is not a producer (DESIGN C12)",
                    "the placeholder inside a CtOption/ConstCtOption that reports none is not a pool member; only values that left the option through Option::from / unwrap / expect are",
                    "Odd::<BoxedUint>::random(rng, 0): no odd value below 2^0 exists, nothing is asserted for that argument",
                ],
            ),
        )),
        "C16" => Some((
            vec![Box::new(c16::PersistSc), Box::new(c16::PrintSc), Box::new(c16s::SliceSc)],
            base(
                "C16",
                "exploration",
                "persist: one run = (type, width, value class, serde format, delivery styles, 0-2 token/medium faults, optional serializer/deserializer error injection, optionally every truncation offset of the payload) executed as serialize -> medium -> deserialize against the real impls; print: one run = (type, width, value, fmt trait, # flag) formatted into an unlimited sink and then into a sink of every capacity 0..len; slices: one run = (decoder among Uint::from_{be,le}_slice, Uint::from_{be,le}_hex, Int::from_be_hex, BoxedUint::from_{be,le}_slice, BoxedUint::from_be_hex; width or bit precision 0..=520 (thorough: ..=2100); value class; precision handed to the reader) written by the real to_{be,le}_bytes as a record of the stated size, 0-2 medium faults or every record length 0..=size+9 with stale bytes at either end, read back and judged against the documented answer (value / InputSize / Precision / refusal); one run in sixteen feeds BoxedUint::from_words from a simulated word source with an exact, loose or absent size_hint. distinct_nontrivial = distinct abstract states (scenario, type, format, delivery styles, fault-kind combination, accept/reject) resp. (type, trait, flag, chunk count)",
                &["serde format (SimSerializer/SimDeserializer: tokens Bytes/Str/U64/None/Some; is_human_readable, delivery style, error-at-call, type confusion, payload faults)", "storage medium faults on the payload", "text sink with a capacity (SimFmtSink)", "positional reference (byte i of the big-endian form = floor(x/256^(n-1-i)) mod 256)"],
                &[
                    "scoped claim: conversions that go through the serde or fmt seams or that read a byte / hex record back from the storage medium (slice and hex decoders, fixed and boxed, with the boxed precision errors); From<primitive>, to/from words, concat/split/resize/widen/shorten involve no record, device or fault and are NOT decided here",
                    "fixed-width slice decoders and all hex decoders refuse by panicking (asserted / documented): a panic on a record the reference refuses is an accepted refusal; BoxedUint::from_be_hex is driven only at precisions that are multiples of 64 (its stated size is 16 digits per limb)",
                    "to_words()/from_words() are the trusted bridge",
                    "no byte order is assumed for the serde payload; strictness is stated as: a faulted record is rejected or re-serializes to itself",
                    "bincode::deserialize ignores trailing bytes (framing): re-encoding must be a prefix of the record",
                    "Display/Debug text gets no content oracle (pinned by the repo's own unit tests); they are run for totality and the prefix property",
                ],
            ),
        )),
        "C18" => Some((
            vec![Box::new(c18::Der), Box::new(c18::Rlp)],
            base(
                "C18",
                "fault_enumeration",
                "one run = one record-store plan. Enumerated part: for every width and every content length 0..=BYTES+4, every (leading octet class x second octet class x body) content under every tag / length-field form / entry point (from_der, SliceReader over SEQUENCE{INTEGER,INTEGER}, TryFrom<AnyRef>, TryFrom<UintRef>; rlp::decode, Rlp::val_at). Seeded part: put(x) through the real encoder into a simulator-owned writer, 0-3 medium faults, get() through the real decoder; every truncation offset / appended length of a record; every writer capacity 0..=len+1 for SimDerWriter and SliceWriter. distinct_nontrivial = distinct abstract states (codec, entry point, width, reference verdict class of the bytes, length class / value class / writer outcome)",
                &["storage medium (SimMedium faults: truncate, zero-tail, flip-bit, drop/dup byte, append, prepend, length-field corruption)", "der::Writer with a capacity (SimDerWriter)", "reference codecs DerIntRef / RlpIntRef (model/codec.rs, written from X.690 8.3/10.1 and the RLP spec)"],
                &[
                    "reference decoders state exactly: tag 02, definite minimal length, non-empty content, first octet < 0x80, no 0x00 pad unless next octet >= 0x80, magnitude <= BYTES, no trailing data at top level",
                    "RLP framing: rlp::decode reads the first item and ignores trailing bytes (rlp crate view semantics) — not a codec violation",
                    "to_be_bytes()/from_be_bytes() of the Encoding trait are the bridge between library values and integers for this property (C16 checks them positionally)",
                    "RLP decoding exists only for U64..U256 (Repr: Default); encoders are run for every width",
                ],
            ),
        )),
        "C11" => {
            // every simulated workload of the other claimed properties, executed under the panic / progress
            // monitor in both build profiles; only C11/* checks are reported here
            let mut v: Vec<Box<dyn Scenario>> = Vec::new();
            let frac = |inner: Box<dyn Scenario>, frac: u64| -> Box<dyn Scenario> { Box::new(core::Sub { inner, frac, min: 2000 }) };
            v.push(frac(Box::new(c19::Script), 2));
            v.push(frac(Box::new(c18::Der), 2));
            v.push(frac(Box::new(c18::Rlp), 2));
            v.push(frac(Box::new(c16::PersistSc), 2));
            v.push(frac(Box::new(c16::PrintSc), 2));
            v.push(frac(Box::new(c16s::SliceSc), 2));
            v.push(frac(Box::new(c12::Pool), 2));
            v.push(frac(Box::new(c08::History { faults: false }), 2));
            v.push(frac(Box::new(c08::History { faults: true }), 2));
            v.push(frac(Box::new(c08::MulChain), 2));
            Some((
                v,
                base(
                    "C11",
                    "exploration",
                    "SCOPED: the simulated workloads of C08, C12, C16, C18, C19 (the first half of each batch: same run index -> same plan) executed under the panic / progress monitor in two build profiles — release (opt-level 3, no debug assertions, no overflow checks) in this process and dbg (opt-level 1, debug assertions, overflow checks) in a child process — with every device fault those workloads inject. Reported: an unwind where the documentation promises a Result/Option or no panic; a documented panic that does not happen; a run whose event log differs between the profiles; a run that does not terminate (finite-tape liveness bound and a real-time watchdog). distinct_nontrivial = distinct abstract states reached across all workloads",
                    &["every device of the other checks (RNG tape, serde format, storage medium, DER writer, text sink)", "expected-panic table derived from the documentation (DESIGN appendix C), encoded at each call site of the workloads"],
                    &[
                        "scope: only operations the simulated workloads call; panics that depend on operand values alone elsewhere in the API are operand-space questions and are not decided by this technique",
                        "Odd::<BoxedUint>::random unwraps a documented-panicking call: an RNG failure there is an expected panic",
                        "the watchdog uses a real clock outside the simulation (never feeds back); limit 300 s per run",
                    ],
                ),
            ))
        }
        _ => None,
    }
}

fn main() {
    monitor::install_hook();
    let args: Vec<String> = std::env::args().collect();
    let usage = || -> ! {
        eprintln!("usage: cbsim run <PROP> [--tier quick|thorough] [--seed N] [--root DIR] | cbsim replay <PROP> <file>");
        std::process::exit(2)
    };
    if args.len() < 3 {
        usage();
    }
    let cmd = args[1].as_str();
    let prop = args[2].as_str();
    let mut tier = match std::env::var("VERIF_TIER").as_deref() {
        Ok("thorough") => Tier::Thorough,
        _ => Tier::Quick,
    };
    let mut seed: u64 = std::env::var("VERIF_SEED").ok().and_then(|s| s.trim().parse().ok()).unwrap_or(1);
    let mut root = PathBuf::from(std::env::var("CBSIM_ROOT").unwrap_or_else(|_| "/verif".into()));
    let mut file: Option<PathBuf> = None;
    let mut out_path: Option<PathBuf> = None;
    let mut i = 3;
    while i < args.len() {
        match args[i].as_str() {
            "--tier" => {
                i += 1;
                tier = match args.get(i).map(|s| s.as_str()) {
                    Some("quick") => Tier::Quick,
                    Some("thorough") => Tier::Thorough,
                    _ => usage(),
                };
            }
            "--seed" => {
                i += 1;
                seed = args.get(i).and_then(|s| s.parse().ok()).unwrap_or_else(|| usage());
            }
            "--out" => {
                i += 1;
                out_path = Some(PathBuf::from(args.get(i).cloned().unwrap_or_else(|| usage())));
            }
            "--root" => {
                i += 1;
                root = PathBuf::from(args.get(i).cloned().unwrap_or_else(|| usage()));
            }
            other if cmd == "replay" && file.is_none() => file = Some(PathBuf::from(other)),
            _ => usage(),
        }
        i += 1;
    }
    let Some((scenarios, mut rep)) = scenarios_for(prop) else {
        eprintln!("harness error: unknown or unclaimed property {prop}");
        std::process::exit(2);
    };
    rep.tier = tier;
    rep.seed = seed;
    rep.root = root.clone();
    println!("cbsim {} {} VERIF_SEED={} tier={} workers={} profile={}", cmd, prop, seed, tier.name(), core::workers(), if cfg!(debug_assertions) { "dbg" } else { "release" });
    let code = match cmd {
        "run" => core::run_property(rep, scenarios),
        "digests" => {
            let Some(o) = out_path else { usage() };
            core::write_digests(&rep, &scenarios, &o)
        }
        "replay" => {
            let Some(f) = file else { usage() };
            core::replay_file(&f, rep.property, &scenarios, &root)
        }
        _ => usage(),
    };
    std::process::exit(code);
}
