fn main(){println!("hi");}
