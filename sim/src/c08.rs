//! C08 — Montgomery forms stay canonical and track Z/mZ over any operation history.
//!
//! Three replicas (ConstMontyForm / MontyForm / BoxedMontyForm) are driven in lock-step by a
//! seeded history of <= 64 events over 8 registers, against the reference model ZmodM
//! (num-bigint). Seam events inside a history: RNG (ConstMontyForm::try_random on a scripted /
//! failing tape), persist/restore of a register through the serde seam with medium faults, zeroize,
//! and a long-lived multiplier object whose scratch buffer survives from event to event.

use crate::core::{RunOut, Tier, TypedScenario};
use crate::dev::medium::Fault;
use crate::dev::rng::{Seg, SimTryRng, Tape, TapePlan};
use crate::dev::serde_fmt::{Delivery, SimDe, Tok, to_tokens};
use crate::monitor::{Guarded, guard};
use crate::prng::{Xoshiro, mix};
use crate::util::{big, hexw, words as to_words_n};
use crate::with_limbs;
use crypto_bigint::modular::{BoxedMontyForm, BoxedMontyParams, ConstMontyForm, ConstMontyFormInverter, ConstMontyParams, MontyForm, MontyParams};
use crypto_bigint::{BoxedUint, Invert, Inverter, Monty, PrecomputeInverter, MontyMultiplier, Odd, Random, Square, SquareAssign, Uint};
use num_bigint::BigUint;
use num_traits::{One, Zero};
use serde::{Deserialize, Serialize};
use std::sync::Arc;
use subtle::{Choice, ConditionallySelectable};
use zeroize::Zeroize;

pub const REGS: usize = 8;

#[derive(Clone, Copy, Debug, Serialize, Deserialize, PartialEq, Eq)]
pub enum Bin {
    Add,
    Sub,
    Mul,
}
#[derive(Clone, Copy, Debug, Serialize, Deserialize, PartialEq, Eq)]
pub enum Un {
    Neg,
    Double,
    Square,
    Half,
}

#[derive(Clone, Debug, Serialize, Deserialize)]
pub enum Op {
    New { dst: usize, val: Vec<u64> },
    Zero {
        dst: usize,
        /// which of the equivalent constructors (associated constant / function, Default, num_traits::Zero, ConstZero, Monty trait)
        #[serde(default)]
        form: u8,
    },
    One {
        dst: usize,
        #[serde(default)]
        form: u8,
    },
    Bin { kind: Bin, dst: usize, a: usize, b: usize, form: u8 },
    Un { kind: Un, dst: usize, a: usize, form: u8 },
    /// long-lived multiplier object: dst = dst * b
    MulM { dst: usize, b: usize },
    SquareM { dst: usize },
    /// drop the multiplier object (zeroizes its buffer) and create a fresh one
    ResetM,
    Select { dst: usize, a: usize, b: usize, choice: bool, form: u8 },
    Swap { a: usize, b: usize, choice: bool },
    /// Monty::copy_montgomery_from
    Copy { dst: usize, a: usize },
    /// to_montgomery -> from_montgomery
    ReMont { dst: usize, a: usize },
    /// clone a register, drop the clone (Arc'd params for boxed)
    CloneDrop { a: usize },
    /// runtime replica register <- From<&ConstMontyForm> of the const replica's register
    ConstToDyn { dst: usize, a: usize },
    /// const replica: try_random from a tape; others: new(value)
    Random { dst: usize, tape: TapePlan },
    /// const replica: serialize register, medium faults, deserialize
    PersistRestore {
        reg: usize,
        human: bool,
        bincode: bool,
        faults: Vec<Fault>,
        style: Delivery,
        fail_at: Option<usize>,
        /// replace the stored value by a forged one before restoring: 1 = exactly m, 2 = m + 1, 3 = 2^BITS - 1, 4 = m - 1
        #[serde(default)]
        forge: u8,
    },
    Zeroize { dst: usize },
    /// dst = a ^ (exp mod 2^bits) through pow_bounded_exp (bits <= 64)
    Pow { dst: usize, a: usize, exp: u64, bits: u32 },
    /// dst = a ^ e through `pow` (the whole exponent type counts), the exponent being 1, 2 or 4 limbs wide whatever the
    /// modulus' width is (boxed: an exponent of another precision than the modulus)
    PowWide { dst: usize, a: usize, e: Vec<u64> },
    /// dst = sum of products of register pairs through lincomb_vartime
    Lincomb { dst: usize, pairs: Vec<(usize, usize)> },
    /// dst = a^-1 if it exists (register unchanged otherwise)
    /// via: 0 = inherent inv / invert, 1 = the `Invert` trait, 2 = one inverter object (precompute_inverter /
    /// ConstMontyFormInverter::new) reused for three inversions in a row: x -> x^-1 -> x -> x^-1
    Invert {
        dst: usize,
        a: usize,
        vartime: bool,
        #[serde(default)]
        via: u8,
    },
    /// Conditional selection between register `a` and a value of a DIFFERENT modulus `m2` of the same width (runtime
    /// fixed-width forms carry their parameters with them, so this is ordinary API use). choice = 0 must give back
    /// register `a` unchanged (stored in `dst`); choice = 1 must give a value that lives entirely in Z/m2Z: its
    /// parameters are those built directly for m2 and a few operations with a second m2 value `w` track Z/m2Z.
    CrossSelect { dst: usize, a: usize, m2: Vec<u64>, v: Vec<u64>, w: Vec<u64>, form: u8 },
}

/// What `Rep::cross_select` observed.
pub struct Cross<S> {
    pub keep: S,
    pub params_selected: String,
    pub params_selected_alone: String,
    pub params_direct: String,
    pub mont: Vec<u64>,
    pub results: Vec<(&'static str, Vec<u64>)>,
}

#[derive(Clone, Copy, Debug, Serialize, Deserialize, PartialEq, Eq)]
pub enum ParamsSrc {
    New,
    NewVartime,
    FromConst,
}

#[derive(Clone, Debug, Serialize, Deserialize)]
pub struct Plan {
    pub limbs: usize,
    /// Some: table modulus (const replica joins); None: runtime modulus in `modulus`
    pub modulus_id: Option<usize>,
    #[serde(default)]
    pub modulus: Vec<u64>,
    pub src_dyn: ParamsSrc,
    pub src_boxed: ParamsSrc,
    /// share one Arc<BoxedMontyParams> between all boxed registers (new_with_arc)
    pub share_arc: bool,
    /// run only the boxed replica (widths without a fixed type)
    pub boxed_only: bool,
    pub ops: Vec<Op>,
}

// ---------------------------------------------------------------------------------------------
// replicas

pub trait Rep: Clone {
    type Ctx;
    const NAME: &'static str;
    fn new(c: &Self::Ctx, x: &[u64]) -> Self;
    fn zero(c: &Self::Ctx) -> Self;
    fn one(c: &Self::Ctx) -> Self;
    fn zero_form(c: &Self::Ctx, _form: u8) -> Self {
        Self::zero(c)
    }
    fn one_form(c: &Self::Ctx, _form: u8) -> Self {
        Self::one(c)
    }

    fn bin(kind: Bin, a: &Self, b: &Self, form: u8) -> Self;
    fn un(kind: Un, a: &Self, form: u8) -> Self;
    fn select(a: &Self, b: &Self, choice: bool, form: u8) -> Self;
    fn mont(&self) -> Vec<u64>;
    fn retrieve(&self) -> Vec<u64>;
    fn from_mont(c: &Self::Ctx, w: &[u64]) -> Self;
    fn copy_from(&mut self, o: &Self);
    fn zeroize_value(&mut self, c: &Self::Ctx);
    fn precision(&self) -> Option<u32> {
        None
    }
    fn pow(&self, exp: u64, bits: u32) -> Self;
    fn pow_wide(&self, e: &[u64]) -> Self;
    fn lincomb(pairs: &[(Self, Self)]) -> Self;
    /// None: this replica offers no inversion; Some(None): not invertible
    fn invert(&self, vartime: bool, via: u8) -> Option<Option<Self>>;
    /// None: values of this replica cannot meet a value of another modulus (compile-time modulus; boxed forms are not
    /// conditionally selectable)
    fn cross_select(&self, _m2: &[u64], _v: &[u64], _w: &[u64], _form: u8) -> Option<Cross<Self>> {
        None
    }
}

/// Inversion of the fixed-width forms needs `Odd<Uint<N>>: PrecomputeInverter`, which exists per alias width.
pub struct S;
pub trait Inv<const N: usize> {
    fn inv_dyn(x: &MontyForm<N>, vartime: bool, via: u8) -> Option<MontyForm<N>>;
    fn inv_const<M: ConstMontyParams<N>>(x: &ConstMontyForm<M, N>, vartime: bool, via: u8) -> Option<ConstMontyForm<M, N>>;
}
/// One inverter object, three inversions in a row: x -> y = x^-1 -> x -> y. None as soon as one of them reports
/// "not invertible" (for the second and third that contradicts the first, and the caller's existence check says so).
fn thrice<I: Inverter>(inv: &I, x: &I::Output, vartime: bool) -> Option<I::Output> {
    let step = |v: &I::Output| -> Option<I::Output> { Option::from(if vartime { inv.invert_vartime(v) } else { inv.invert(v) }) };
    let y = step(x)?;
    let z = step(&y)?;
    step(&z)
}
macro_rules! impl_inv {
    ($($n:expr),*) => { $(
        impl Inv<$n> for S {
            fn inv_dyn(x: &MontyForm<$n>, vartime: bool, via: u8) -> Option<MontyForm<$n>> {
                match via % 3 {
                    0 => Option::from(if vartime { x.inv_vartime() } else { x.inv() }),
                    1 => Option::from(if vartime { Invert::invert_vartime(x) } else { Invert::invert(x) }),
                    _ => thrice(&x.params().precompute_inverter(), x, vartime),
                }
            }
            fn inv_const<M: ConstMontyParams<$n>>(x: &ConstMontyForm<M, $n>, vartime: bool, via: u8) -> Option<ConstMontyForm<M, $n>> {
                match via % 3 {
                    0 => Option::from(if vartime { x.inv_vartime() } else { x.inv() }),
                    1 => Option::from(if vartime { Invert::invert_vartime(x) } else { Invert::invert(x) }),
                    _ => thrice(&ConstMontyFormInverter::<M, $n>::new(), x, vartime),
                }
            }
        }
    )* };
}
impl_inv!(1, 2, 3, 4, 5, 6, 7, 8, 16, 32);

macro_rules! bin_forms {
    ($kind:expr, $a:expr, $b:expr, $form:expr, $T:ty) => {{
        let (a, b): (&$T, &$T) = ($a, $b);
        match ($kind, $form % 7) {
            (Bin::Add, 0) => a.add(b),
            (Bin::Add, 1) => a + b,
            (Bin::Add, 2) => a.clone() + b,
            (Bin::Add, 3) => a + b.clone(),
            (Bin::Add, 4) => a.clone() + b.clone(),
            (Bin::Add, 5) => {
                let mut t = a.clone();
                t += b;
                t
            }
            (Bin::Add, _) => {
                let mut t = a.clone();
                t += b.clone();
                t
            }
            (Bin::Sub, 0) => a.sub(b),
            (Bin::Sub, 1) => a - b,
            (Bin::Sub, 2) => a.clone() - b,
            (Bin::Sub, 3) => a - b.clone(),
            (Bin::Sub, 4) => a.clone() - b.clone(),
            (Bin::Sub, 5) => {
                let mut t = a.clone();
                t -= b;
                t
            }
            (Bin::Sub, _) => {
                let mut t = a.clone();
                t -= b.clone();
                t
            }
            (Bin::Mul, 0) => a.mul(b),
            (Bin::Mul, 1) => a * b,
            (Bin::Mul, 2) => a.clone() * b,
            (Bin::Mul, 3) => a * b.clone(),
            (Bin::Mul, 4) => a.clone() * b.clone(),
            (Bin::Mul, 5) => {
                let mut t = a.clone();
                t *= b;
                t
            }
            (Bin::Mul, _) => {
                let mut t = a.clone();
                t *= b.clone();
                t
            }
        }
    }};
}

/// Const replica
#[derive(Clone)]
pub struct CRep<M: ConstMontyParams<N>, const N: usize>(pub ConstMontyForm<M, N>);

fn uint_of<const N: usize>(x: &[u64]) -> Uint<N> {
    let mut w = [0u64; N];
    for (i, v) in x.iter().take(N).enumerate() {
        w[i] = *v;
    }
    Uint::from_words(w)
}

impl<M: ConstMontyParams<N>, const N: usize> Rep for CRep<M, N>
where
    S: Inv<N>,
{
    fn pow(&self, exp: u64, bits: u32) -> Self {
        CRep(self.0.pow_bounded_exp(&Uint::<1>::from_u64(exp), bits))
    }
    fn pow_wide(&self, e: &[u64]) -> Self {
        CRep(match e.len() {
            1 => self.0.pow(&uint_of::<1>(e)),
            2 => self.0.pow(&uint_of::<2>(e)),
            _ => self.0.pow(&uint_of::<4>(e)),
        })
    }
    fn lincomb(pairs: &[(Self, Self)]) -> Self {
        let v: Vec<(ConstMontyForm<M, N>, ConstMontyForm<M, N>)> = pairs.iter().map(|(a, b)| (a.0, b.0)).collect();
        CRep(ConstMontyForm::lincomb_vartime(&v))
    }
    fn invert(&self, vartime: bool, via: u8) -> Option<Option<Self>> {
        Some(<S as Inv<N>>::inv_const(&self.0, vartime, via).map(CRep))
    }
    type Ctx = ();
    const NAME: &'static str = "const";
    fn new(_: &(), x: &[u64]) -> Self {
        CRep(ConstMontyForm::new(&uint_of::<N>(x)))
    }
    fn zero(_: &()) -> Self {
        CRep(ConstMontyForm::ZERO)
    }
    fn one(_: &()) -> Self {
        CRep(ConstMontyForm::ONE)
    }
    fn zero_form(_: &(), form: u8) -> Self {
        CRep(match form % 4 {
            0 => ConstMontyForm::ZERO,
            1 => Default::default(),
            2 => <ConstMontyForm<M, N> as num_traits::Zero>::zero(),
            _ => <ConstMontyForm<M, N> as crypto_bigint::ConstZero>::ZERO,
        })
    }
    fn bin(kind: Bin, a: &Self, b: &Self, form: u8) -> Self {
        CRep(bin_forms!(kind, &a.0, &b.0, form, ConstMontyForm<M, N>))
    }
    fn un(kind: Un, a: &Self, form: u8) -> Self {
        let a = &a.0;
        CRep(match (kind, form % 3) {
            (Un::Neg, 0) => a.neg(),
            (Un::Neg, 1) => -*a,
            (Un::Neg, _) => -a,
            (Un::Double, _) => a.double(),
            (Un::Square, 0) => a.square(),
            (Un::Square, _) => Square::square(a),
            (Un::Half, _) => a.div_by_2(),
        })
    }
    fn select(a: &Self, b: &Self, choice: bool, form: u8) -> Self {
        let ch = Choice::from(choice as u8);
        CRep(match form % 3 {
            0 => ConstMontyForm::conditional_select(&a.0, &b.0, ch),
            1 => {
                let mut t = a.0;
                t.conditional_assign(&b.0, ch);
                t
            }
            _ => {
                let (mut s, mut t) = (a.0, b.0);
                ConstMontyForm::conditional_swap(&mut s, &mut t, ch);
                s
            }
        })
    }
    fn mont(&self) -> Vec<u64> {
        self.0.as_montgomery().to_words().to_vec()
    }
    fn retrieve(&self) -> Vec<u64> {
        self.0.retrieve().to_words().to_vec()
    }
    fn from_mont(_: &(), w: &[u64]) -> Self {
        CRep(ConstMontyForm::from_montgomery(uint_of::<N>(w)))
    }
    fn copy_from(&mut self, o: &Self) {
        *self.0.as_montgomery_mut() = *o.0.as_montgomery();
    }
    fn zeroize_value(&mut self, _: &()) {
        self.0.zeroize();
    }
}

impl<const N: usize> Rep for MontyForm<N>
where
    S: Inv<N>,
{
    fn pow(&self, exp: u64, bits: u32) -> Self {
        self.pow_bounded_exp(&Uint::<1>::from_u64(exp), bits)
    }
    fn pow_wide(&self, e: &[u64]) -> Self {
        match e.len() {
            1 => MontyForm::pow(self, &uint_of::<1>(e)),
            2 => MontyForm::pow(self, &uint_of::<2>(e)),
            _ => MontyForm::pow(self, &uint_of::<4>(e)),
        }
    }
    fn lincomb(pairs: &[(Self, Self)]) -> Self {
        let v: Vec<(&MontyForm<N>, &MontyForm<N>)> = pairs.iter().map(|(a, b)| (a, b)).collect();
        if pairs.len() % 2 == 0 { MontyForm::lincomb_vartime(&v) } else { <MontyForm<N> as Monty>::lincomb_vartime(&v) }
    }
    fn invert(&self, vartime: bool, via: u8) -> Option<Option<Self>> {
        Some(<S as Inv<N>>::inv_dyn(self, vartime, via))
    }
    type Ctx = MontyParams<N>;
    const NAME: &'static str = "runtime";
    fn new(c: &Self::Ctx, x: &[u64]) -> Self {
        MontyForm::new(&uint_of::<N>(x), *c)
    }
    fn zero(c: &Self::Ctx) -> Self {
        MontyForm::zero(*c)
    }
    fn one(c: &Self::Ctx) -> Self {
        <MontyForm<N> as Monty>::one(*c)
    }
    fn zero_form(c: &Self::Ctx, form: u8) -> Self {
        if form % 2 == 0 { MontyForm::zero(*c) } else { <MontyForm<N> as Monty>::zero(*c) }
    }
    fn one_form(c: &Self::Ctx, form: u8) -> Self {
        if form % 2 == 0 { MontyForm::one(*c) } else { <MontyForm<N> as Monty>::one(*c) }
    }
    fn bin(kind: Bin, a: &Self, b: &Self, form: u8) -> Self {
        bin_forms!(kind, a, b, form, MontyForm<N>)
    }
    fn un(kind: Un, a: &Self, form: u8) -> Self {
        match (kind, form % 3) {
            (Un::Neg, 0) => a.neg(),
            (Un::Neg, 1) => -*a,
            (Un::Neg, _) => -a,
            (Un::Double, 0) => a.double(),
            (Un::Double, _) => Monty::double(a),
            (Un::Square, 0) => a.square(),
            (Un::Square, 1) => Square::square(a),
            (Un::Square, _) => {
                let mut t = *a;
                SquareAssign::square_assign(&mut t);
                t
            }
            (Un::Half, 0) => a.div_by_2(),
            (Un::Half, 1) => Monty::div_by_2(a),
            (Un::Half, _) => {
                let mut t = *a;
                Monty::div_by_2_assign(&mut t);
                t
            }
        }
    }
    fn select(a: &Self, b: &Self, choice: bool, form: u8) -> Self {
        let ch = Choice::from(choice as u8);
        match form % 3 {
            0 => MontyForm::conditional_select(a, b, ch),
            1 => {
                let mut t = *a;
                t.conditional_assign(b, ch);
                t
            }
            _ => {
                let (mut s, mut t) = (*a, *b);
                MontyForm::conditional_swap(&mut s, &mut t, ch);
                s
            }
        }
    }
    fn cross_select(&self, m2: &[u64], v: &[u64], w: &[u64], form: u8) -> Option<Cross<Self>> {
        let odd = Option::<Odd<Uint<N>>>::from(Odd::new(uint_of::<N>(m2)))?;
        let p2 = MontyParams::<N>::new_vartime(odd);
        let x2 = MontyForm::new(&uint_of::<N>(v), p2);
        let y2 = MontyForm::new(&uint_of::<N>(w), p2);
        let keep = Self::select(self, &x2, false, form);
        let sel = Self::select(self, &x2, true, form);
        let alone = MontyParams::conditional_select(self.params(), &p2, Choice::from(1u8));
        let r = |z: MontyForm<N>| MontyForm::retrieve(&z).to_words().to_vec();
        let mut plus_assign = sel;
        plus_assign += &y2;
        #[allow(clippy::clone_on_copy)]
        let cloned = {
            let mut t = *self;
            t.clone_from(&x2);
            t
        };
        let results = vec![
            ("select", r(sel)),
            ("select.add(w)", r(sel.add(&y2))),
            ("w.add(select)", r(y2.add(&sel))),
            ("select + w", r(sel + y2)),
            ("select += w", r(plus_assign)),
            ("select.sub(w)", r(sel.sub(&y2))),
            ("w.sub(select)", r(y2.sub(&sel))),
            ("select.mul(w)", r(sel.mul(&y2))),
            ("select.double()", r(sel.double())),
            ("select.neg()", r(sel.neg())),
            ("select.square()", r(sel.square())),
            ("select.div_by_2()", r(sel.div_by_2())),
            ("clone_from", r(cloned)),
            ("clone_from.add(w)", r(cloned.add(&y2))),
        ];
        Some(Cross {
            keep,
            params_selected: format!("{:?}", sel.params()),
            params_selected_alone: format!("{:?}", alone),
            params_direct: format!("{:?}", p2),
            mont: Monty::as_montgomery(&sel).to_words().to_vec(),
            results,
        })
    }
    fn mont(&self) -> Vec<u64> {
        Monty::as_montgomery(self).to_words().to_vec()
    }
    fn retrieve(&self) -> Vec<u64> {
        MontyForm::retrieve(self).to_words().to_vec()
    }
    fn from_mont(c: &Self::Ctx, w: &[u64]) -> Self {
        MontyForm::from_montgomery(uint_of::<N>(w), *c)
    }
    fn copy_from(&mut self, o: &Self) {
        Monty::copy_montgomery_from(self, o)
    }
    fn zeroize_value(&mut self, c: &Self::Ctx) {
        // MontyForm::zeroize wipes the parameters too (dead value); the workload re-creates a live zero
        let mut t = *self;
        t.zeroize();
        *self = MontyForm::zero(*c);
    }
}

#[derive(Clone)]
pub struct BCtx {
    pub params: BoxedMontyParams,
    pub arc: Option<Arc<BoxedMontyParams>>,
    pub limbs: usize,
}

fn boxed_of(x: &[u64], limbs: usize) -> BoxedUint {
    let mut w = x.to_vec();
    w.resize(limbs, 0);
    BoxedUint::from_words(w)
}

impl Rep for BoxedMontyForm {
    /// The boxed form has no selection API; the way one of its values meets another modulus is `Clone::clone_from`
    /// into an existing value (buffer and parameters of the destination are overwritten).
    fn cross_select(&self, m2: &[u64], v: &[u64], w: &[u64], _form: u8) -> Option<Cross<Self>> {
        let limbs = self.as_montgomery().as_words().len();
        let odd = Option::<Odd<BoxedUint>>::from(Odd::new(boxed_of(m2, limbs)))?;
        let p2 = BoxedMontyParams::new_vartime(odd);
        let x2 = BoxedMontyForm::new(boxed_of(v, limbs), p2.clone());
        let y2 = BoxedMontyForm::new(boxed_of(w, limbs), p2.clone());
        let keep = {
            let mut t = x2.clone();
            t.clone_from(self);
            t
        };
        let mut t = self.clone();
        t.clone_from(&x2);
        let r = |z: &BoxedMontyForm| z.retrieve().as_words().to_vec();
        let results = vec![
            ("clone_from", r(&t)),
            ("clone_from.add(w)", r(&(&t + &y2))),
            ("w.add(clone_from)", r(&(&y2 + &t))),
            ("clone_from.sub(w)", r(&(&t - &y2))),
            ("clone_from.mul(w)", r(&(&t * &y2))),
            ("clone_from.neg()", r(&-&t)),
        ];
        Some(Cross {
            keep,
            params_selected: format!("{:?}", t.params()),
            params_selected_alone: format!("{:?}", t.params()),
            params_direct: format!("{:?}", p2),
            mont: t.as_montgomery().as_words().to_vec(),
            results,
        })
    }
    fn pow(&self, exp: u64, bits: u32) -> Self {
        self.pow_bounded_exp(&BoxedUint::from(exp), bits)
    }
    fn pow_wide(&self, e: &[u64]) -> Self {
        BoxedMontyForm::pow(self, &BoxedUint::from_words(e.iter().copied()))
    }
    fn lincomb(pairs: &[(Self, Self)]) -> Self {
        let v: Vec<(&BoxedMontyForm, &BoxedMontyForm)> = pairs.iter().map(|(a, b)| (a, b)).collect();
        if pairs.len() % 2 == 0 { BoxedMontyForm::lincomb_vartime(&v) } else { <BoxedMontyForm as Monty>::lincomb_vartime(&v) }
    }
    fn invert(&self, vartime: bool, via: u8) -> Option<Option<Self>> {
        Some(match via % 3 {
            0 => Option::from(if vartime { self.invert_vartime() } else { self.invert() }),
            1 => Option::from(if vartime { Invert::invert_vartime(self) } else { Invert::invert(self) }),
            _ => thrice(&self.params().precompute_inverter(), self, vartime),
        })
    }
    type Ctx = BCtx;
    const NAME: &'static str = "boxed";
    fn new(c: &BCtx, x: &[u64]) -> Self {
        match &c.arc {
            Some(a) => BoxedMontyForm::new_with_arc(boxed_of(x, c.limbs), a.clone()),
            None => BoxedMontyForm::new(boxed_of(x, c.limbs), c.params.clone()),
        }
    }
    fn zero(c: &BCtx) -> Self {
        BoxedMontyForm::zero(c.params.clone())
    }
    fn one(c: &BCtx) -> Self {
        BoxedMontyForm::one(c.params.clone())
    }
    fn zero_form(c: &BCtx, form: u8) -> Self {
        if form % 2 == 0 { BoxedMontyForm::zero(c.params.clone()) } else { <BoxedMontyForm as Monty>::zero(c.params.clone()) }
    }
    fn one_form(c: &BCtx, form: u8) -> Self {
        if form % 2 == 0 { BoxedMontyForm::one(c.params.clone()) } else { <BoxedMontyForm as Monty>::one(c.params.clone()) }
    }
    fn bin(kind: Bin, a: &Self, b: &Self, form: u8) -> Self {
        bin_forms!(kind, a, b, form, BoxedMontyForm)
    }
    fn un(kind: Un, a: &Self, form: u8) -> Self {
        match (kind, form % 3) {
            (Un::Neg, 0) => a.neg(),
            (Un::Neg, 1) => -a.clone(),
            (Un::Neg, _) => -a,
            (Un::Double, 0) => a.double(),
            (Un::Double, _) => Monty::double(a),
            (Un::Square, 0) => a.square(),
            (Un::Square, 1) => Square::square(a),
            (Un::Square, _) => {
                let mut t = a.clone();
                SquareAssign::square_assign(&mut t);
                t
            }
            (Un::Half, 0) => a.div_by_2(),
            (Un::Half, 1) => Monty::div_by_2(a),
            (Un::Half, _) => {
                let mut t = a.clone();
                Monty::div_by_2_assign(&mut t);
                t
            }
        }
    }
    fn select(a: &Self, b: &Self, choice: bool, _form: u8) -> Self {
        // BoxedMontyForm offers no selection API; the harness keeps the replica in lock-step by cloning
        if choice { b.clone() } else { a.clone() }
    }
    fn mont(&self) -> Vec<u64> {
        Monty::as_montgomery(self).to_words().to_vec()
    }
    fn retrieve(&self) -> Vec<u64> {
        BoxedMontyForm::retrieve(self).to_words().to_vec()
    }
    fn from_mont(c: &BCtx, w: &[u64]) -> Self {
        BoxedMontyForm::from_montgomery(boxed_of(w, c.limbs), c.params.clone())
    }
    fn copy_from(&mut self, o: &Self) {
        Monty::copy_montgomery_from(self, o)
    }
    fn zeroize_value(&mut self, _: &BCtx) {
        self.zeroize();
    }
    fn precision(&self) -> Option<u32> {
        Some(Monty::as_montgomery(self).bits_precision())
    }
}

// ---------------------------------------------------------------------------------------------
// reference model

pub struct Model {
    pub m: BigUint,
    pub r: BigUint,
    pub bits: u32,
    pub regs: Vec<BigUint>,
    /// -m^-1 mod R
    pub mneg: BigUint,
}

impl Model {
    pub fn new(m: &[u64], limbs: usize) -> Model {
        let m = big(m);
        let bits = 64 * limbs as u32;
        let r = BigUint::one() << bits as usize;
        let inv = m.modinv(&r).unwrap_or_default();
        let mneg = (&r - inv) % &r;
        Model { m, r, bits, regs: vec![BigUint::zero(); REGS], mneg }
    }
    pub fn to_mont(&self, x: &BigUint) -> BigUint {
        (x * &self.r) % &self.m
    }
    /// value of the Montgomery product before the final conditional subtraction
    pub fn pre_reduction(&self, a: &BigUint, b: &BigUint) -> BigUint {
        let p = self.to_mont(a) * self.to_mont(b);
        let u = ((&p % &self.r) * &self.mneg) % &self.r;
        (p + u * &self.m) >> self.bits as usize
    }
    pub fn modulus_class(&self) -> String {
        let bits = self.m.bits();
        let lz = self.bits as u64 - bits;
        let c = if self.m.is_one() {
            "1".to_string()
        } else if self.m == BigUint::from(3u8) {
            "3".into()
        } else if self.m == &self.r - 1u32 {
            "2^BITS-1".into()
        } else if self.m == (&self.r >> 1) + 1u32 {
            "2^(BITS-1)+1".into()
        } else if lz >= 64 {
            format!("zero-high-limbs:{}", lz / 64)
        } else if lz > 0 {
            format!("lz:{}", if lz >= 16 { "16+" } else if lz >= 2 { "2-15" } else { "1" })
        } else {
            "full-width".into()
        };
        c
    }
}

// ---------------------------------------------------------------------------------------------
// parameter checks (oracle 5)

fn parse_debug_field(s: &str, field: &str) -> Option<String> {
    let k = format!("{}: ", field);
    let i = s.find(&k)? + k.len();
    let rest = &s[i..];
    if let Some(h) = rest.find("0x") {
        // value like Uint(0x..) / Limb(0x..) / Odd(BoxedUint(0x..)) — but only if 0x comes before the next comma
        let comma = rest.find(',').unwrap_or(rest.len());
        if h < comma {
            let hex: String = rest[h + 2..].chars().take_while(|c| c.is_ascii_hexdigit()).collect();
            return Some(hex.to_ascii_lowercase());
        }
    }
    let num: String = rest.chars().take_while(|c| c.is_ascii_digit()).collect();
    if num.is_empty() { None } else { Some(num) }
}

fn hex_to_big(h: &str) -> BigUint {
    BigUint::parse_bytes(h.as_bytes(), 16).unwrap_or_default()
}

/// Returns Err(harness error) if the Debug rendering cannot be parsed.
fn check_params_debug(dbg: &str, ctor: &str, model: &Model, out: &mut RunOut, plan: &Plan) -> Result<(), String> {
    let get = |f: &str| parse_debug_field(dbg, f).ok_or_else(|| format!("cannot parse field {f} from Debug rendering {dbg:?}"));
    let one = hex_to_big(&get("one")?);
    let r2 = hex_to_big(&get("r2")?);
    let r3 = hex_to_big(&get("r3")?);
    let mni = hex_to_big(&get("mod_neg_inv")?);
    let lz: u32 = get("mod_leading_zeros")?.parse().map_err(|e| format!("{e}"))?;
    let m = &model.m;
    let want_one = &model.r % m;
    let want_r2 = (&model.r * &model.r) % m;
    let want_r3 = (&model.r * &model.r * &model.r) % m;
    let want_mni = &model.mneg % (BigUint::one() << 64);
    let want_lz = ((model.bits as u64 - m.bits()) as u32).min(63);
    let mc = model.modulus_class();
    let pj = || serde_json::to_value(Plan { ops: vec![], ..plan.clone() }).ok();
    let mut chk = |name: &str, got: &BigUint, want: &BigUint| {
        if got != want {
            out.viol(
                "C08/params-definition",
                format!("{}:{}:m={}", name, ctor, mc),
                format!("{} built by {} for m={:#x} is {:#x}, definition gives {:#x}", name, ctor, m, got, want),
                pj(),
            );
        }
    };
    chk("one", &one, &want_one);
    chk("r2", &r2, &want_r2);
    chk("r3", &r3, &want_r3);
    chk("mod_neg_inv", &mni, &want_mni);
    chk("mod_leading_zeros", &BigUint::from(lz), &BigUint::from(want_lz));
    Ok(())
}

// ---------------------------------------------------------------------------------------------
// the lock-step executor

struct NoRep;

struct Side<R: Rep> {
    ctx: R::Ctx,
    regs: Vec<R>,
}

fn guarded_ev<T>(out: &mut RunOut, what: &str, rep: &str, f: impl FnOnce() -> T) -> Option<T> {
    match guard(f) {
        Guarded::Done(v) => Some(v),
        Guarded::Panic(p) => {
            out.viol(
                "C11/unexpected-panic",
                format!("monty:{}:{}:{}", rep, what, p.location),
                format!("{} on the {} replica panicked at {}: {}", what, rep, p.location, p.message),
                None,
            );
            None
        }
        Guarded::Budget => None,
    }
}

#[allow(clippy::too_many_arguments)]
fn check_reg<R: Rep>(side: &Side<R>, i: usize, model: &Model, opname: &str, out: &mut RunOut, limbs: usize) -> Option<Vec<u64>> {
    let r = &side.regs[i];
    let (mont, retr) = guarded_ev(out, &format!("{}:read", opname), R::NAME, || (r.mont(), r.retrieve()))?;
    let mc = model.modulus_class();
    if big(&mont) >= model.m {
        out.viol(
            "C08/noncanonical",
            format!("{}:{}:m={}", R::NAME, opname, mc),
            format!("after {} register {} of the {} replica stores {} >= m = {:#x}", opname, i, R::NAME, hexw(&mont), model.m),
            None,
        );
    }
    if big(&retr) != model.regs[i] {
        out.viol(
            "C08/retrieve-mismatch",
            format!("{}:{}:m={}", R::NAME, opname, mc),
            format!("after {} register {} of the {} replica retrieves {} but Z/mZ gives {:#x} (m = {:#x})", opname, i, R::NAME, hexw(&retr), model.regs[i], model.m),
            None,
        );
    }
    if let Some(p) = r.precision() {
        if p != 64 * limbs as u32 {
            out.viol("C08/precision", opname.to_string(), format!("boxed result has precision {} but the modulus has {}", p, 64 * limbs), None);
        }
    }
    Some(mont)
}

/// Run one history. `c`, `d`, `b` are the const / runtime / boxed sides (each optional).
fn run<C: Rep, D: Rep + Monty, B: Rep + Monty>(
    plan: &Plan,
    model: &mut Model,
    mut c: Option<Side<C>>,
    mut d: Option<Side<D>>,
    mut b: Option<Side<B>>,
    dparams: Option<&<D as Monty>::Params>,
    bparams: Option<&<B as Monty>::Params>,
    const_hooks: &dyn ConstHooks<C, D>,
    out: &mut RunOut,
) {
    let limbs = plan.limbs;
    let mut mult_d: Option<<D as Monty>::Multiplier<'_>> = None;
    let mut mult_b: Option<<B as Monty>::Multiplier<'_>> = None;
    let mut mult_uses = 0u32;
    let mc = model.modulus_class();
    out.state(format!("c08|w{}|m={}|replicas={}{}{}", limbs, mc, c.is_some() as u8, d.is_some() as u8, b.is_some() as u8));

    macro_rules! each {
        ($name:expr, |$s:ident| $body:expr) => {{
            if let Some($s) = c.as_mut() {
                let r = guard(|| $body);
                if let Guarded::Panic(p) = r {
                    out.viol("C11/unexpected-panic", format!("monty:const:{}:{}", $name, p.location), format!("{} on the const replica panicked at {}: {}", $name, p.location, p.message), None);
                }
            }
            if let Some($s) = d.as_mut() {
                let r = guard(|| $body);
                if let Guarded::Panic(p) = r {
                    out.viol("C11/unexpected-panic", format!("monty:runtime:{}:{}", $name, p.location), format!("{} on the runtime replica panicked at {}: {}", $name, p.location, p.message), None);
                }
            }
            if let Some($s) = b.as_mut() {
                let r = guard(|| $body);
                if let Guarded::Panic(p) = r {
                    out.viol("C11/unexpected-panic", format!("monty:boxed:{}:{}", $name, p.location), format!("{} on the boxed replica panicked at {}: {}", $name, p.location, p.message), None);
                }
            }
        }};
    }

    for (ei, op) in plan.ops.iter().enumerate() {
        let mut touched: Vec<usize> = Vec::new();
        let opname: String;
        match op {
            Op::New { dst, val } => {
                opname = "new".into();
                let v = big(val) % (BigUint::one() << (64 * limbs));
                model.regs[*dst] = &v % &model.m;
                if v >= model.m {
                    out.count("probe:new-with-value-ge-modulus");
                }
                let vw = to_words_n(&v, limbs);
                each!("new", |s| s.regs[*dst] = Rep::new(&s.ctx, &vw));
                touched.push(*dst);
            }
            Op::Zero { dst, form } => {
                opname = "zero".into();
                model.regs[*dst] = BigUint::zero();
                each!("zero", |s| s.regs[*dst] = Rep::zero_form(&s.ctx, *form));
                touched.push(*dst);
            }
            Op::One { dst, form } => {
                opname = "one".into();
                model.regs[*dst] = BigUint::one() % &model.m;
                each!("one", |s| s.regs[*dst] = Rep::one_form(&s.ctx, *form));
                touched.push(*dst);
            }
            Op::Bin { kind, dst, a, b: bb, form } => {
                opname = format!("{:?}", kind).to_lowercase();
                let (x, y) = (model.regs[*a].clone(), model.regs[*bb].clone());
                model.regs[*dst] = match kind {
                    Bin::Add => (&x + &y) % &model.m,
                    Bin::Sub => (&x + &model.m - &y) % &model.m,
                    Bin::Mul => {
                        let t = model.pre_reduction(&x, &y);
                        if t >= model.m {
                            out.count("probe:final-subtraction-needed");
                        }
                        if t >= model.r {
                            out.count("probe:pre-reduction-value-overflows-2^BITS");
                        }
                        (&x * &y) % &model.m
                    }
                };
                each!(opname, |s| s.regs[*dst] = Rep::bin(*kind, &s.regs[*a], &s.regs[*bb], *form));
                touched.push(*dst);
            }
            Op::Un { kind, dst, a, form } => {
                opname = format!("{:?}", kind).to_lowercase();
                let x = model.regs[*a].clone();
                model.regs[*dst] = match kind {
                    Un::Neg => (&model.m - &x) % &model.m,
                    Un::Double => (&x * 2u32) % &model.m,
                    Un::Square => {
                        let t = model.pre_reduction(&x, &x);
                        if t >= model.m {
                            out.count("probe:final-subtraction-needed");
                        }
                        (&x * &x) % &model.m
                    }
                    Un::Half => {
                        // x * 2^-1 mod m
                        let xm = model.to_mont(&x);
                        if xm.bit(0) && (&xm + &model.m) >= model.r {
                            out.count("probe:div-by-2-carry-out");
                        }
                        if x.bit(0) { (&x + &model.m) >> 1 } else { &x >> 1 }
                    }
                };
                each!(opname, |s| s.regs[*dst] = Rep::un(*kind, &s.regs[*a], *form));
                touched.push(*dst);
            }
            Op::MulM { dst, b: bb } => {
                opname = "multiplier-mul".into();
                let (x, y) = (model.regs[*dst].clone(), model.regs[*bb].clone());
                let t = model.pre_reduction(&x, &y);
                if t >= model.m {
                    out.count("probe:final-subtraction-needed");
                }
                model.regs[*dst] = (&x * &y) % &model.m;
                // const replica has no multiplier object: plain mul
                if let Some(s) = c.as_mut() {
                    if let Some(v) = guarded_ev(out, "mul", "const", || Rep::bin(Bin::Mul, &s.regs[*dst], &s.regs[*bb], 0)) {
                        s.regs[*dst] = v;
                    }
                }
                if let (Some(s), Some(p)) = (d.as_mut(), dparams) {
                    let mm = mult_d.get_or_insert_with(|| <D as Monty>::Multiplier::from(p));
                    let rhs = s.regs[*bb].clone();
                    let lhs = &mut s.regs[*dst];
                    let _ = guarded_ev(out, "multiplier-mul", "runtime", || mm.mul_assign(lhs, &rhs));
                }
                if let (Some(s), Some(p)) = (b.as_mut(), bparams) {
                    let mm = mult_b.get_or_insert_with(|| <B as Monty>::Multiplier::from(p));
                    let rhs = s.regs[*bb].clone();
                    let lhs = &mut s.regs[*dst];
                    let _ = guarded_ev(out, "multiplier-mul", "boxed", || mm.mul_assign(lhs, &rhs));
                }
                mult_uses += 1;
                if mult_uses == 8 {
                    out.count("probe:multiplier-reused-8-times");
                }
                touched.push(*dst);
            }
            Op::SquareM { dst } => {
                opname = "multiplier-square".into();
                let x = model.regs[*dst].clone();
                model.regs[*dst] = (&x * &x) % &model.m;
                if let Some(s) = c.as_mut() {
                    if let Some(v) = guarded_ev(out, "square", "const", || Rep::un(Un::Square, &s.regs[*dst], 0)) {
                        s.regs[*dst] = v;
                    }
                }
                if let (Some(s), Some(p)) = (d.as_mut(), dparams) {
                    let mm = mult_d.get_or_insert_with(|| <D as Monty>::Multiplier::from(p));
                    let lhs = &mut s.regs[*dst];
                    let _ = guarded_ev(out, "multiplier-square", "runtime", || mm.square_assign(lhs));
                }
                if let (Some(s), Some(p)) = (b.as_mut(), bparams) {
                    let mm = mult_b.get_or_insert_with(|| <B as Monty>::Multiplier::from(p));
                    let lhs = &mut s.regs[*dst];
                    let _ = guarded_ev(out, "multiplier-square", "boxed", || mm.square_assign(lhs));
                }
                mult_uses += 1;
                if mult_uses == 8 {
                    out.count("probe:multiplier-reused-8-times");
                }
                touched.push(*dst);
            }
            Op::ResetM => {
                opname = "multiplier-reset".into();
                mult_d = None;
                mult_b = None;
                mult_uses = 0;
            }
            Op::Select { dst, a, b: bb, choice, form } => {
                opname = "select".into();
                model.regs[*dst] = if *choice { model.regs[*bb].clone() } else { model.regs[*a].clone() };
                each!("select", |s| s.regs[*dst] = Rep::select(&s.regs[*a], &s.regs[*bb], *choice, *form));
                touched.push(*dst);
            }
            Op::Swap { a, b: bb, choice } => {
                opname = "swap".into();
                if *choice {
                    model.regs.swap(*a, *bb);
                }
                each!("swap", |s| {
                    let na = Rep::select(&s.regs[*a], &s.regs[*bb], *choice, 0);
                    let nb = Rep::select(&s.regs[*bb], &s.regs[*a], *choice, 2);
                    s.regs[*a] = na;
                    s.regs[*bb] = nb;
                });
                touched.push(*a);
                touched.push(*bb);
            }
            Op::Copy { dst, a } => {
                opname = "copy_montgomery_from".into();
                model.regs[*dst] = model.regs[*a].clone();
                each!("copy_montgomery_from", |s| {
                    let src = s.regs[*a].clone();
                    s.regs[*dst].copy_from(&src);
                });
                touched.push(*dst);
            }
            Op::ReMont { dst, a } => {
                opname = "from_montgomery".into();
                model.regs[*dst] = model.regs[*a].clone();
                each!("from_montgomery", |s| {
                    let w = s.regs[*a].mont();
                    s.regs[*dst] = Rep::from_mont(&s.ctx, &w);
                });
                touched.push(*dst);
            }
            Op::CloneDrop { a } => {
                opname = "clone-drop".into();
                each!("clone-drop", |s| {
                    let t = s.regs[*a].clone();
                    drop(t);
                });
                touched.push(*a);
            }
            Op::ConstToDyn { dst, a } => {
                opname = "From<&ConstMontyForm>".into();
                if let (Some(cs), Some(ds)) = (c.as_ref(), d.as_mut()) {
                    if let Some(v) = const_hooks.to_dyn(&cs.regs[*a]) {
                        model.regs[*dst] = model.regs[*a].clone();
                        ds.regs[*dst] = v;
                        // keep the other replicas in step
                        if let Some(s) = c.as_mut() {
                            s.regs[*dst] = s.regs[*a].clone();
                        }
                        if let Some(s) = b.as_mut() {
                            s.regs[*dst] = s.regs[*a].clone();
                        }
                        out.count("probe:const-to-runtime-conversion");
                        touched.push(*dst);
                    }
                }
            }
            Op::Random { dst, tape } => {
                opname = "random".into();
                let Some(cs) = c.as_mut() else { continue };
                let mut t = Tape::new(tape);
                let before = cs.regs[*dst].mont();
                let r = guard(|| const_hooks.try_random(&mut t));
                for f in &t.faults_fired {
                    out.count(match f.id {
                        crate::dev::rng::FAULT_AT_CALL => "fault:rng-fail-at-call",
                        _ => "fault:rng-tape-exhausted",
                    });
                }
                match r {
                    Guarded::Done(Some(v)) => {
                        if t.bytes > 8 * limbs as u64 {
                            out.count("probe:random-with-rejection");
                        }
                        let mont = v.mont();
                        if big(&mont) >= model.m {
                            out.viol("C08/noncanonical", format!("const:random:m={}", mc), format!("try_random produced stored form {} >= m", hexw(&mont)), None);
                        }
                        let val = big(&v.retrieve());
                        cs.regs[*dst] = v;
                        model.regs[*dst] = &val % &model.m;
                        let vw = to_words_n(&model.regs[*dst], limbs);
                        if let Some(s) = d.as_mut() {
                            s.regs[*dst] = Rep::new(&s.ctx, &vw);
                        }
                        if let Some(s) = b.as_mut() {
                            s.regs[*dst] = Rep::new(&s.ctx, &vw);
                        }
                        touched.push(*dst);
                    }
                    Guarded::Done(None) => {
                        out.count("probe:random-failed-register-kept");
                        if cs.regs[*dst].mont() != before {
                            out.viol("C08/failed-op-changed-state", "random:rng-fault".into(), "try_random failed but the register changed".into(), None);
                        }
                    }
                    Guarded::Panic(p) => {
                        out.viol("C11/unexpected-panic", format!("monty:const:random:{}", p.location), format!("try_random panicked at {}: {}", p.location, p.message), None);
                    }
                    Guarded::Budget => {}
                }
            }
            Op::PersistRestore { reg, human, bincode, faults, style, fail_at, forge } => {
                opname = "persist-restore".into();
                let Some(cs) = c.as_mut() else { continue };
                let before = cs.regs[*reg].mont();
                // a forged record: the bytes on the medium denote a chosen stored form (the record of another,
                // possibly non-canonical, value) — built with from_montgomery, which is exactly what a foreign
                // writer could have put there
                let forged: Option<C> = match forge {
                    0 => None,
                    k => {
                        let rr = BigUint::one() << (64 * limbs);
                        let v = match k {
                            1 => model.m.clone(),
                            2 => &model.m + 1u32,
                            3 => &rr - 1u32,
                            _ => &model.m - 1u32,
                        } % &rr;
                        out.count("fault:medium-forged-record");
                        Some(C::from_mont(&cs.ctx, &to_words_n(&v, limbs)))
                    }
                };
                let source = forged.as_ref().unwrap_or(&cs.regs[*reg]);
                let forged_flag = forged.is_some();
                let res = guard(|| const_hooks.persist_restore(source, *human, *bincode, faults, *style, *fail_at));
                match res {
                    Guarded::Done((fired, Some(v))) => {
                        for k in &fired {
                            out.count(&format!("fault:medium-{}", k));
                        }
                        let mont = v.mont();
                        if big(&mont) >= model.m {
                            out.viol(
                                "C08/restore-noncanonical",
                                format!("{}:{}", if *bincode { "bincode" } else if *human { "sim-human" } else { "sim-bin" }, if forged_flag { "forged-record".to_string() } else if fired.is_empty() { "clean".to_string() } else { fired.join("+") }),
                                format!("restore succeeded with stored form {} >= m = {:#x}", hexw(&mont), model.m),
                                None,
                            );
                            out.count("quarantined");
                            // quarantine: keep the old register
                        } else {
                            if mont != before {
                                out.count("probe:restore-accepted-different-value");
                            }
                            // the model adopts the value the stored bytes denote
                            let val = big(&v.retrieve());
                            cs.regs[*reg] = v;
                            model.regs[*reg] = val;
                            let vw = to_words_n(&model.regs[*reg], limbs);
                            if let Some(s) = d.as_mut() {
                                s.regs[*reg] = Rep::new(&s.ctx, &vw);
                            }
                            if let Some(s) = b.as_mut() {
                                s.regs[*reg] = Rep::new(&s.ctx, &vw);
                            }
                        }
                        touched.push(*reg);
                    }
                    Guarded::Done((fired, None)) => {
                        for k in &fired {
                            out.count(&format!("fault:medium-{}", k));
                        }
                        if fired.is_empty() && fail_at.is_none() && !forged_flag {
                            out.viol("C08/failed-op-changed-state", "persist-restore:clean-record-rejected".into(), "a fault-free record of a canonical register failed to restore".into(), None);
                        } else {
                            out.count("probe:restore-rejected");
                        }
                        if cs.regs[*reg].mont() != before {
                            out.viol("C08/failed-op-changed-state", "persist-restore".into(), "restore failed but the register changed".into(), None);
                        }
                    }
                    Guarded::Panic(p) => {
                        out.viol("C11/unexpected-panic", format!("monty:const:persist-restore:{}", p.location), format!("persist/restore panicked at {}: {}", p.location, p.message), None);
                    }
                    Guarded::Budget => {}
                }
            }
            Op::Pow { dst, a, exp, bits } => {
                opname = "pow_bounded_exp".into();
                let bits = (*bits).min(64);
                let e = if bits == 64 { *exp } else { *exp & ((1u64 << bits) - 1) };
                let x = model.regs[*a].clone();
                model.regs[*dst] = x.modpow(&BigUint::from(e), &model.m);
                each!("pow_bounded_exp", |s| s.regs[*dst] = s.regs[*a].pow(*exp, bits));
                touched.push(*dst);
            }
            Op::PowWide { dst, a, e } => {
                opname = "pow".into();
                let x = model.regs[*a].clone();
                model.regs[*dst] = x.modpow(&big(e), &model.m);
                each!("pow", |s| s.regs[*dst] = s.regs[*a].pow_wide(e));
                touched.push(*dst);
            }
            Op::Lincomb { dst, pairs } => {
                opname = "lincomb_vartime".into();
                if pairs.is_empty() {
                    continue;
                }
                let mut acc = BigUint::zero();
                for (x, y) in pairs {
                    acc += &model.regs[*x] * &model.regs[*y];
                }
                model.regs[*dst] = acc % &model.m;
                each!("lincomb_vartime", |s| {
                    let v: Vec<_> = pairs.iter().map(|(x, y)| (s.regs[*x].clone(), s.regs[*y].clone())).collect();
                    s.regs[*dst] = Rep::lincomb(&v);
                });
                touched.push(*dst);
            }
            Op::CrossSelect { dst, a, m2, v, w, form } => {
                opname = "cross-select".into();
                model.regs[*dst] = model.regs[*a].clone();
                if let Some(s) = c.as_mut() {
                    s.regs[*dst] = s.regs[*a].clone();
                }
                macro_rules! cross_side {
                    ($side:expr, $name:expr) => {
                if let Some(s) = $side.as_mut() {
                    match guard(|| s.regs[*a].cross_select(m2, v, w, *form)) {
                        Guarded::Done(Some(x)) => {
                            out.ev("cross-select");
                            out.count("probe:cross-modulus-selection-checked");
                            let mm2 = big(m2);
                            let (vv, ww) = (big(v) % &mm2, big(w) % &mm2);
                            let lz = |m: &BigUint| (64 * plan.limbs as u64).saturating_sub(m.bits()).min(2);
                            out.state(format!("cross-select|w{}|lz-own={}|lz-other={}|form{}", plan.limbs, lz(&model.m), lz(&mm2), form % 3));
                            if x.params_selected != x.params_direct || x.params_selected_alone != x.params_direct {
                                out.viol(
                                    "C08/params-mismatch",
                                    format!("{}:cross-select:params:w{}", $name, plan.limbs),
                                    format!("selecting (choice = 1) a value of modulus {} over a value of modulus {} gave parameters {} (MontyParams alone: {}); built directly for that modulus: {}", hexw(m2), hexw(&to_words_n(&model.m, plan.limbs)), x.params_selected, x.params_selected_alone, x.params_direct),
                                    None,
                                );
                            }
                            if big(&x.mont) >= mm2 {
                                out.viol("C08/noncanonical", format!("{}:cross-select", $name), format!("the selected value stores {} >= its modulus {}", hexw(&x.mont), hexw(m2)), None);
                            }
                            let sub = |a: &BigUint, b: &BigUint| (a + &mm2 - b) % &mm2;
                            let two = BigUint::from(2u8);
                            for (name, got) in &x.results {
                                let want: BigUint = match *name {
                                    "select" | "clone_from" => vv.clone(),
                                    "select.add(w)" | "w.add(select)" | "select + w" | "select += w" | "clone_from.add(w)" | "w.add(clone_from)" => (&vv + &ww) % &mm2,
                                    "select.sub(w)" | "clone_from.sub(w)" => sub(&vv, &ww),
                                    "w.sub(select)" => sub(&ww, &vv),
                                    "select.mul(w)" | "clone_from.mul(w)" => (&vv * &ww) % &mm2,
                                    "select.double()" => (&vv * &two) % &mm2,
                                    "select.neg()" | "clone_from.neg()" => sub(&BigUint::default(), &vv),
                                    "select.square()" => (&vv * &vv) % &mm2,
                                    _ => {
                                        // halve: the x with 2x = v (mod m2); m2 odd
                                        if (&vv % &two).is_zero() { &vv / &two } else { (&vv + &mm2) / &two }
                                    }
                                };
                                if big(got) != want {
                                    out.viol(
                                        "C08/retrieve-mismatch",
                                        format!("{}:cross-select:{}", $name, name),
                                        format!("after selecting (choice = 1) the value {} of modulus {} over a value of modulus {}, {} (w = {}) retrieves {} but Z/m2Z gives 0x{:x}", hexw(&to_words_n(&vv, plan.limbs)), hexw(m2), hexw(&to_words_n(&model.m, plan.limbs)), name, hexw(&to_words_n(&ww, plan.limbs)), hexw(got), want),
                                        None,
                                    );
                                }
                            }
                            s.regs[*dst] = x.keep;
                        }
                        Guarded::Done(None) => {
                            s.regs[*dst] = s.regs[*a].clone();
                        }
                        Guarded::Panic(p) => {
                            out.viol("C11/unexpected-panic", format!("monty:{}:cross-select:{}", $name, p.location), format!("selection between values of two moduli, or an operation on the result, panicked at {}: {}", p.location, p.message), None);
                            s.regs[*dst] = s.regs[*a].clone();
                        }
                        Guarded::Budget => {}
                    }
                }
                    };
                }
                cross_side!(d, "runtime");
                cross_side!(b, "boxed");
                touched.push(*dst);
            }
            Op::Invert { dst, a, vartime, via } => {
                opname = format!("{}{}", if *vartime { "invert_vartime" } else { "invert" }, ["", "(trait)", "(inverter object x3)"][(*via % 3) as usize]);
                out.count(&format!("probe:invert-route-{}", via % 3));
                if model.m.is_one() {
                    // Z/1Z: 0 is its own inverse or has none, depending on taste — nothing asserted about the result,
                    // but the call must not unwind and whatever it returns must be canonical
                    macro_rules! inv1 {
                        ($side:expr, $name:expr) => {
                            if let Some(s) = $side.as_mut() {
                                match guard(|| s.regs[*a].invert(*vartime, *via)) {
                                    Guarded::Done(Some(Some(v))) => {
                                        if big(&v.mont()) >= model.m {
                                            out.viol("C08/noncanonical", format!("{}:invert:m=1", $name), format!("invert for m = 1 returned the stored form {}", hexw(&v.mont())), None);
                                        }
                                    }
                                    Guarded::Panic(p) => {
                                        out.viol("C11/unexpected-panic", format!("monty:{}:invert:{}", $name, p.location), format!("invert on the {} replica (m = 1) panicked at {}: {}", $name, p.location, p.message), None);
                                    }
                                    _ => {}
                                }
                            }
                        };
                    }
                    inv1!(c, "const");
                    inv1!(d, "runtime");
                    inv1!(b, "boxed");
                    continue;
                }
                let x = model.regs[*a].clone();
                let want = x.modinv(&model.m);
                let mut exists: Vec<(&str, bool)> = Vec::new();
                macro_rules! inv_side {
                    ($side:expr, $name:expr) => {
                        if let Some(s) = $side.as_mut() {
                            match guard(|| s.regs[*a].invert(*vartime, *via)) {
                                Guarded::Done(Some(Some(v))) => {
                                    s.regs[*dst] = v;
                                    exists.push(($name, true));
                                }
                                Guarded::Done(Some(None)) => {
                                    exists.push(($name, false));
                                    if want.is_some() {
                                        // keep the replica in step with the model so that the mismatch is reported once
                                        let vw = to_words_n(want.as_ref().unwrap(), limbs);
                                        s.regs[*dst] = Rep::new(&s.ctx, &vw);
                                    }
                                }
                                Guarded::Done(None) => {}
                                Guarded::Panic(p) => {
                                    out.viol("C11/unexpected-panic", format!("monty:{}:invert:{}", $name, p.location), format!("invert on the {} replica panicked at {}: {}", $name, p.location, p.message), None);
                                }
                                Guarded::Budget => {}
                            }
                        }
                    };
                }
                inv_side!(c, "const");
                inv_side!(d, "runtime");
                inv_side!(b, "boxed");
                for (name, e) in &exists {
                    if *e != want.is_some() {
                        out.viol(
                            "C08/retrieve-mismatch",
                            format!("{}:{}:existence:m={}", name, opname, mc),
                            format!("{} of {:#x} mod {:#x} on the {} replica reported is_some={} but an inverse {}", opname, x, model.m, name, e, if want.is_some() { "exists" } else { "does not exist" }),
                            None,
                        );
                    }
                }
                if let Some(w) = want {
                    model.regs[*dst] = w;
                    out.count("probe:inverse-exists");
                    touched.push(*dst);
                } else {
                    out.count("probe:inverse-does-not-exist");
                    // replicas that (wrongly) produced a value were written to dst; restore them from the model
                    let vw = to_words_n(&model.regs[*dst], limbs);
                    each!("invert-restore", |s| s.regs[*dst] = Rep::new(&s.ctx, &vw));
                }
            }
            Op::Zeroize { dst } => {
                opname = "zeroize".into();
                model.regs[*dst] = BigUint::zero();
                each!("zeroize", |s| {
                    let mut t = s.regs[*dst].clone();
                    t.zeroize_value(&s.ctx);
                    s.regs[*dst] = t;
                });
                touched.push(*dst);
            }
        }
        out.ev(&format!("{}:{}", ei, opname));
        // oracles on every touched register, every replica
        touched.dedup();
        for &i in &touched {
            let mc_ = c.as_ref().and_then(|s| check_reg(s, i, model, &opname, out, limbs));
            let md = d.as_ref().and_then(|s| check_reg(s, i, model, &opname, out, limbs));
            let mb = b.as_ref().and_then(|s| check_reg(s, i, model, &opname, out, limbs));
            let pairs = [("const-runtime", &mc_, &md), ("const-boxed", &mc_, &mb), ("runtime-boxed", &md, &mb)];
            for (name, x, y) in pairs {
                if let (Some(x), Some(y)) = (x, y) {
                    if x != y {
                        out.viol("C08/replica-diverge", format!("{}:{}", name, opname), format!("stored forms differ after {}: {} vs {}", opname, hexw(x), hexw(y)), None);
                    }
                }
            }
            if let Some(x) = mc_.as_ref().or(md.as_ref()).or(mb.as_ref()) {
                out.digest.words(x);
            }
        }
        out.state(format!("c08|{}|m={}|w{}", opname, mc, if limbs <= 4 { limbs.to_string() } else if limbs <= 8 { "5-8".into() } else { "9+".into() }));
    }
    drop(mult_d);
    drop(mult_b);
    // end of history: every register of every replica
    for i in 0..REGS {
        if let Some(s) = c.as_ref() {
            check_reg(s, i, model, "final", out, limbs);
        }
        if let Some(s) = d.as_ref() {
            check_reg(s, i, model, "final", out, limbs);
        }
        if let Some(s) = b.as_ref() {
            check_reg(s, i, model, "final", out, limbs);
        }
    }
}

/// Operations that exist only for the const replica (need the concrete modulus type).
pub trait ConstHooks<C: Rep, D: Rep> {
    fn to_dyn(&self, _c: &C) -> Option<D> {
        None
    }
    fn try_random(&self, _t: &mut Tape) -> Option<C> {
        None
    }
    fn persist_restore(&self, _c: &C, _human: bool, _bincode: bool, _faults: &[Fault], _style: Delivery, _fail_at: Option<usize>) -> (Vec<String>, Option<C>) {
        (vec![], None)
    }
}

struct NoHooks;
impl<C: Rep, D: Rep> ConstHooks<C, D> for NoHooks {}

struct Hooks<M, const N: usize>(std::marker::PhantomData<M>);

impl<M: ConstMontyParams<N>, const N: usize> ConstHooks<CRep<M, N>, MontyForm<N>> for Hooks<M, N>
where
    Uint<N>: crypto_bigint::Encoding,
    S: Inv<N>,
{
    fn to_dyn(&self, c: &CRep<M, N>) -> Option<MontyForm<N>> {
        Some(MontyForm::from(&c.0))
    }
    fn try_random(&self, t: &mut Tape) -> Option<CRep<M, N>> {
        ConstMontyForm::<M, N>::try_random(&mut SimTryRng(t)).ok().map(CRep)
    }
    fn persist_restore(&self, c: &CRep<M, N>, human: bool, bincode: bool, faults: &[Fault], style: Delivery, fail_at: Option<usize>) -> (Vec<String>, Option<CRep<M, N>>) {
        let mut fired = Vec::new();
        if bincode {
            let Ok(mut rec) = bincode::serialize(&c.0) else { return (fired, None) };
            for f in faults {
                if f.apply(&mut rec) {
                    fired.push(f.kind().to_string());
                }
            }
            return (fired, bincode::deserialize::<ConstMontyForm<M, N>>(&rec).ok().map(CRep));
        }
        let (r, ser) = to_tokens(&c.0, human, None);
        if r.is_err() {
            return (fired, None);
        }
        let mut toks = ser.toks;
        for f in faults {
            let did = match toks.first_mut() {
                Some(Tok::Bytes(b)) => f.apply(b),
                Some(Tok::Str(s)) => {
                    let mut b = s.as_bytes().to_vec();
                    let d = f.apply(&mut b);
                    for x in b.iter_mut() {
                        *x &= 0x7f;
                    }
                    *s = String::from_utf8(b).unwrap_or_default();
                    d
                }
                _ => false,
            };
            if did {
                fired.push(f.kind().to_string());
            }
        }
        let mut de = SimDe::new(&toks, human, style, style, fail_at);
        let v = ConstMontyForm::<M, N>::deserialize(&mut de).ok().map(CRep);
        (fired, v)
    }
}

// dummy replica used when a side is absent
impl Rep for NoRep {
    type Ctx = ();
    const NAME: &'static str = "none";
    fn new(_: &(), _: &[u64]) -> Self {
        NoRep
    }
    fn zero(_: &()) -> Self {
        NoRep
    }
    fn one(_: &()) -> Self {
        NoRep
    }
    fn bin(_: Bin, _: &Self, _: &Self, _: u8) -> Self {
        NoRep
    }
    fn un(_: Un, _: &Self, _: u8) -> Self {
        NoRep
    }
    fn select(_: &Self, _: &Self, _: bool, _: u8) -> Self {
        NoRep
    }
    fn mont(&self) -> Vec<u64> {
        vec![]
    }
    fn retrieve(&self) -> Vec<u64> {
        vec![]
    }
    fn from_mont(_: &(), _: &[u64]) -> Self {
        NoRep
    }
    fn copy_from(&mut self, _: &Self) {}
    fn zeroize_value(&mut self, _: &()) {}
    fn pow(&self, _: u64, _: u32) -> Self {
        NoRep
    }
    fn pow_wide(&self, _: &[u64]) -> Self {
        NoRep
    }
    fn lincomb(_: &[(Self, Self)]) -> Self {
        NoRep
    }
    fn invert(&self, _: bool, _: u8) -> Option<Option<Self>> {
        None
    }
}
impl Clone for NoRep {
    fn clone(&self) -> Self {
        NoRep
    }
}

fn side<R: Rep>(ctx: R::Ctx) -> Side<R> {
    let regs = (0..REGS).map(|_| R::zero(&ctx)).collect();
    Side { ctx, regs }
}

/// Parameter construction is an operation of the property like any other: it runs under the monitor.
fn guarded_params<T>(what: &str, out: &mut RunOut, plan: &Plan, f: impl FnOnce() -> T) -> Option<T> {
    match guard(f) {
        Guarded::Done(v) => Some(v),
        Guarded::Panic(p) => {
            out.viol(
                "C11/unexpected-panic",
                format!("monty:params:{}:{}", what, p.location),
                format!("{} panicked at {}: {}", what, p.location, p.message),
                serde_json::to_value(Plan { ops: vec![], ..plan.clone() }).ok(),
            );
            None
        }
        Guarded::Budget => None,
    }
}

fn boxed_ctx(plan: &Plan, m: &[u64], src: ParamsSrc, from_const: Option<BoxedMontyParams>, out: &mut RunOut) -> Option<(BCtx, Vec<(String, BoxedMontyParams)>)> {
    let odd = Option::<Odd<BoxedUint>>::from(Odd::new(boxed_of(m, plan.limbs)))?;
    let o2 = odd.clone();
    let pn = guarded_params("BoxedMontyParams::new", out, plan, move || BoxedMontyParams::new(o2))?;
    let pv = guarded_params("BoxedMontyParams::new_vartime", out, plan, move || BoxedMontyParams::new_vartime(odd))?;
    let mut all = vec![("BoxedMontyParams::new".to_string(), pn.clone()), ("BoxedMontyParams::new_vartime".to_string(), pv.clone())];
    if let Some(fc) = &from_const {
        all.push(("BoxedMontyParams::from_const_params".to_string(), fc.clone()));
    }
    let params = match (src, from_const) {
        (ParamsSrc::FromConst, Some(fc)) => fc,
        (ParamsSrc::NewVartime, _) => pv,
        _ => pn,
    };
    let arc = if plan.share_arc { Some(Arc::new(params.clone())) } else { None };
    Some((BCtx { params, arc, limbs: plan.limbs }, all))
}

fn params_oracle<P: PartialEq + std::fmt::Debug>(all: &[(String, P)], fam: &str, model: &Model, plan: &Plan, out: &mut RunOut) -> Result<(), String> {
    for i in 1..all.len() {
        if all[i].1 != all[0].1 {
            out.viol(
                "C08/params-mismatch",
                format!("{}:{}-vs-{}:w{}", fam, all[0].0, all[i].0, plan.limbs),
                format!("{} and {} give different parameter sets for m={:#x}: {:?} vs {:?}", all[0].0, all[i].0, model.m, all[0].1, all[i].1),
                serde_json::to_value(Plan { ops: vec![], ..plan.clone() }).ok(),
            );
        }
    }
    for (name, p) in all {
        check_params_debug(&format!("{:?}", p), name, model, out, plan)?;
    }
    out.count("probe:params-oracle-run");
    Ok(())
}

macro_rules! const_table_exec {
    ($( ($idx:expr, $name:ident, $n:expr) ),* $(,)?) => {
        fn exec_const(plan: &Plan, id: usize, out: &mut RunOut) -> Result<(), String> {
            use crate::moduli::*;
            match id {
                $( $idx => {
                    const N: usize = $n;
                    type M = $name;
                    let m = <M as ConstMontyParams<N>>::MODULUS.as_ref().to_words().to_vec();
                    let mut model = Model::new(&m, N);
                    // associated constants against their definitions
                    {
                        let one = big(&<M as ConstMontyParams<N>>::ONE.to_words());
                        let r2 = big(&<M as ConstMontyParams<N>>::R2.to_words());
                        let r3 = big(&<M as ConstMontyParams<N>>::R3.to_words());
                        let mni = BigUint::from(<M as ConstMontyParams<N>>::MOD_NEG_INV.0);
                        let lz = <M as ConstMontyParams<N>>::MOD_LEADING_ZEROS;
                        let dbg = format!("ConstMontyParams {{ one: Uint(0x{:x}), r2: Uint(0x{:x}), r3: Uint(0x{:x}), mod_neg_inv: Limb(0x{:x}), mod_leading_zeros: {} }}", one, r2, r3, mni, lz);
                        check_params_debug(&dbg, "impl_modulus!", &model, out, plan)?;
                    }
                    let odd = <M as ConstMontyParams<N>>::MODULUS;
                    let Some(pn) = guarded_params("MontyParams::new", out, plan, || MontyParams::<N>::new(odd)) else { return Ok(()) };
                    let Some(pv) = guarded_params("MontyParams::new_vartime", out, plan, || MontyParams::<N>::new_vartime(odd)) else { return Ok(()) };
                    let pc = MontyParams::<N>::from_const_params::<M>();
                    let all = vec![("MontyParams::new".to_string(), pn), ("MontyParams::new_vartime".to_string(), pv), ("MontyParams::from_const_params".to_string(), pc)];
                    params_oracle(&all, "runtime", &model, plan, out)?;
                    let dp = match plan.src_dyn { ParamsSrc::New => pn, ParamsSrc::NewVartime => pv, ParamsSrc::FromConst => pc };
                    let bfc = BoxedMontyParams::from_const_params::<N, M>();
                    let Some((bctx, ball)) = boxed_ctx(plan, &m, plan.src_boxed, Some(bfc), out) else { return Ok(()) };
                    params_oracle(&ball, "boxed", &model, plan, out)?;
                    let bp = bctx.params.clone();
                    let hooks = Hooks::<M, N>(std::marker::PhantomData);
                    run::<CRep<M, N>, MontyForm<N>, BoxedMontyForm>(plan, &mut model, Some(side(())), Some(side(dp)), Some(side(bctx)), Some(&dp), Some(&bp), &hooks, out);
                    Ok(())
                } )*
                _ => Ok(()),
            }
        }
    };
}
crate::for_each_modulus!(const_table_exec);

fn exec(plan: &Plan, out: &mut RunOut) {
    let r: Result<(), String> = (|| {
        if let Some(id) = plan.modulus_id {
            return exec_const(plan, id, out);
        }
        let m = &plan.modulus;
        let mut model = Model::new(m, plan.limbs);
        let Some((bctx, ball)) = boxed_ctx(plan, m, plan.src_boxed, None, out) else { return Ok(()) };
        params_oracle(&ball, "boxed", &model, plan, out)?;
        let bp = bctx.params.clone();
        if plan.boxed_only {
            run::<NoRep, BoxedMontyForm, BoxedMontyForm>(plan, &mut model, None, None, Some(side(bctx)), None, Some(&bp), &NoHooks, out);
            return Ok(());
        }
        with_limbs!(plan.limbs, N, {
            let odd = Option::<Odd<Uint<N>>>::from(Odd::new(uint_of::<N>(m)));
            let Some(odd) = odd else { return Ok(()) };
            let Some(pn) = guarded_params("MontyParams::new", out, plan, || MontyParams::<N>::new(odd)) else { return Ok(()) };
            let Some(pv) = guarded_params("MontyParams::new_vartime", out, plan, || MontyParams::<N>::new_vartime(odd)) else { return Ok(()) };
            let all = vec![("MontyParams::new".to_string(), pn), ("MontyParams::new_vartime".to_string(), pv)];
            params_oracle(&all, "runtime", &model, plan, out)?;
            let dp = if plan.src_dyn == ParamsSrc::NewVartime { pv } else { pn };
            run::<NoRep, MontyForm<N>, BoxedMontyForm>(plan, &mut model, None, Some(side(dp)), Some(side(bctx)), Some(&dp), Some(&bp), &NoHooks, out);
            Ok(())
        }, else {
            run::<NoRep, BoxedMontyForm, BoxedMontyForm>(plan, &mut model, None, None, Some(side(bctx)), None, Some(&bp), &NoHooks, out);
            Ok(())
        })
    })();
    if let Err(e) = r {
        // harness error: the Debug rendering the params oracle depends on could not be parsed
        eprintln!("harness error: {e}");
        std::process::exit(2);
    }
}

// ---------------------------------------------------------------------------------------------
// generation

pub struct History {
    pub faults: bool,
}

fn gen_modulus(r: &mut Xoshiro, limbs: usize) -> Vec<u64> {
    let bits = 64 * limbs;
    let one = BigUint::one();
    let rr = &one << bits;
    let v: BigUint = match r.below(13) {
        0 => one.clone(),
        1 => BigUint::from(3u8),
        2 => &rr - 1u32,
        3 => (&rr >> 1) + 1u32,
        // about 2^BITS/3 and 2^BITS/4, and their odd neighbours
        4 => ((&rr / 3u32) | &one) + 2u64 * r.below(3),
        5 => ((&rr / 4u32) | &one) + 2u64 * r.below(3),
        6 if limbs > 1 => {
            // whole zero high limbs
            let k = r.range(1, limbs as u64 - 1) as usize;
            let mut w: Vec<u64> = (0..k).map(|_| r.next()).collect();
            w[0] |= 1;
            big(&w)
        }
        7 => {
            // 0..=63+ leading zero bits
            let lz = r.below((bits as u64).min(130)) as usize;
            let mut w: Vec<u64> = (0..limbs).map(|_| r.next()).collect();
            w[0] |= 1;
            (big(&w) >> lz) | &one
        }
        8 => {
            // sparse: 2^k + small
            let k = r.range(1, bits as u64 - 1) as usize;
            (&one << k) + BigUint::from(r.below(1000) * 2 + 1)
        }
        9 => {
            // 2^BITS - small
            &rr - BigUint::from(r.below(1000) * 2 + 1)
        }
        10 => {
            // exactly one or two leading zero bits (where an almost-Montgomery intermediate has the least slack)
            let lz = r.range(1, 2) as usize;
            let mut w: Vec<u64> = (0..limbs).map(|_| r.next()).collect();
            w[0] |= 1;
            w[limbs - 1] |= 1 << 63;
            big(&w) >> lz
        }
        _ => {
            let mut w: Vec<u64> = (0..limbs).map(|_| r.next()).collect();
            w[0] |= 1;
            if r.chance(1, 2) {
                w[limbs - 1] |= 1 << 63;
            }
            big(&w)
        }
    };
    to_words_n(&v, limbs)
}

fn gen_val(r: &mut Xoshiro, m: &BigUint, limbs: usize) -> Vec<u64> {
    let rr = BigUint::one() << (64 * limbs);
    let one = BigUint::one();
    // zero divisors and nilpotents of composite moduli (m/p, small multiples, the small factors themselves):
    // the only operands whose product is a non-zero multiple of m, i.e. reduces to exactly m before the
    // final conditional subtraction
    let has3 = (m % 3u32).is_zero();
    if r.chance(1, if has3 { 3 } else { 8 }) {
        let p = if has3 && r.chance(1, 2) { 3 } else { *r.pick(&[3u32, 5, 7, 9, 15, 17, 27]) };
        let v = match r.below(4) {
            0 => m / p,
            1 => (m / p) * r.range(1, p as u64 - 1),
            2 => BigUint::from(p),
            _ => {
                // a multiple of the largest of these factors that actually divides m
                let f = [27u32, 17, 15, 9, 7, 5, 3].iter().copied().find(|f| (m % *f).is_zero()).unwrap_or(1);
                (m / f) * r.range(1, f.max(2) as u64 - 1)
            }
        };
        return to_words_n(&(v % &rr), limbs);
    }
    let v: BigUint = match r.below(12) {
        0 => BigUint::zero(),
        1 => one.clone(),
        2 => (m + &rr - &one) % &rr % (m + &one), // m-1
        3 => (m + &one) >> 1,
        4 => (m - &one) >> 1,
        5 => m.clone() % &rr,
        6 => (m + &one) % &rr,
        7 => &rr - &one,
        8 => BigUint::from(2u8),
        _ => {
            let w: Vec<u64> = (0..limbs).map(|_| r.next()).collect();
            big(&w)
        }
    };
    to_words_n(&(v % &rr), limbs)
}

const LOCKSTEP_WIDTHS: [usize; 8] = [1, 2, 3, 4, 6, 8, 16, 32];

/// Focus batch: long multiplicative chains (new / mul / square / multiplier object / pow) on the moduli with the
/// least slack for an almost-Montgomery intermediate — 0, 1 or 2 leading zero bits — on the runtime and boxed
/// replicas, widths 1..4 and boxed 1..9. Same executor and oracles as the general batch.
pub struct MulChain;

impl TypedScenario for MulChain {
    type Plan = Plan;
    fn name(&self) -> &'static str {
        "c08-mulchain"
    }
    fn chunk(&self) -> u64 {
        16
    }
    fn n_runs(&self, tier: Tier) -> u64 {
        match tier {
            Tier::Quick => 20_000,
            Tier::Thorough => 3_000_000,
        }
    }
    fn generate(&self, seed: u64, _tier: Tier, i: u64) -> Plan {
        let mut r = Xoshiro::new(mix(seed, 0x08C, i));
        let boxed_only = r.chance(1, 3);
        let limbs = if boxed_only { r.range(1, 9) as usize } else { *r.pick(&[1usize, 1, 2, 2, 3, 4]) };
        let lz = *r.pick(&[0usize, 1, 1, 1, 2]);
        let mut w: Vec<u64> = (0..limbs).map(|_| r.next()).collect();
        w[0] |= 1;
        w[limbs - 1] |= 1 << 63;
        if r.chance(1, 4) {
            // top limb all ones below the leading zeros
            w[limbs - 1] = u64::MAX;
        }
        let m = big(&w) >> lz;
        let modulus = to_words_n(&(m.clone() | BigUint::one()), limbs);
        let mb = big(&modulus);
        let reg = |r: &mut Xoshiro| r.below(REGS as u64) as usize;
        let mut ops = Vec::new();
        // mostly random residues here: the special values are the general batch's business
        let rv = |r: &mut Xoshiro| -> Vec<u64> {
            if r.chance(1, 4) { gen_val(r, &mb, limbs) } else { (0..limbs).map(|_| r.next()).collect() }
        };
        for d in 0..4 {
            ops.push(Op::New { dst: d, val: rv(&mut r) });
        }
        let n_ops = r.range(16, 64) as usize;
        while ops.len() < n_ops {
            ops.push(match r.below(10) {
                0 => Op::New { dst: reg(&mut r), val: rv(&mut r) },
                1 | 2 => Op::Bin { kind: Bin::Mul, dst: reg(&mut r), a: reg(&mut r), b: reg(&mut r), form: r.below(7) as u8 },
                3 => Op::Un { kind: Un::Square, dst: reg(&mut r), a: reg(&mut r), form: r.below(3) as u8 },
                4 => Op::MulM { dst: reg(&mut r), b: reg(&mut r) },
                5 => Op::SquareM { dst: reg(&mut r) },
                6 => Op::Bin { kind: *r.pick(&[Bin::Add, Bin::Sub]), dst: reg(&mut r), a: reg(&mut r), b: reg(&mut r), form: 0 },
                _ => {
                    let bits = *r.pick(&[64u32, 64, 63, 33, 17, 8, 5]);
                    Op::Pow { dst: reg(&mut r), a: reg(&mut r), exp: r.next(), bits }
                }
            });
        }
        Plan { limbs, modulus_id: None, modulus, src_dyn: *r.pick(&[ParamsSrc::New, ParamsSrc::NewVartime]), src_boxed: *r.pick(&[ParamsSrc::New, ParamsSrc::NewVartime]), share_arc: r.chance(1, 2), boxed_only, ops }
    }
    fn exec(&self, plan: &Plan, out: &mut RunOut) {
        exec(plan, out);
    }
    fn shrink(&self, p: &Plan) -> Vec<Plan> {
        History { faults: false }.shrink(p)
    }
}

impl TypedScenario for History {
    type Plan = Plan;
    fn name(&self) -> &'static str {
        if self.faults { "c08-history-faults" } else { "c08-history" }
    }
    fn chunk(&self) -> u64 {
        16
    }
    fn n_runs(&self, tier: Tier) -> u64 {
        match (tier, self.faults) {
            (Tier::Quick, false) => 24_000,
            (Tier::Quick, true) => 8_000,
            (Tier::Thorough, false) => 5_000_000,
            (Tier::Thorough, true) => 2_000_000,
        }
    }
    fn generate(&self, seed: u64, tier: Tier, i: u64) -> Plan {
        let mut r = Xoshiro::new(mix(seed, if self.faults { 0x08F } else { 0x08 }, i));
        // width: N = 32 histories are ~100x dearer and get a fixed small share
        let kind = r.below(100);
        let (limbs, boxed_only) = if kind < 12 {
            // boxed-only at every N in 1..=33
            (r.range(1, 33) as usize, true)
        } else {
            let w = match tier {
                Tier::Quick => {
                    // 1 % sixteen-limb and 0.3 % thirty-two-limb histories: dear, but the wide-multiplication paths
                    // (Karatsuba thresholds) are only reached there
                    let k = r.below(1000);
                    if k < 3 { 32 } else if k < 13 { 16 } else { *r.pick(&[1usize, 1, 2, 2, 3, 4, 4, 6, 8]) }
                }
                Tier::Thorough => {
                    let k = r.below(100);
                    if k < 3 { 32 } else if k < 8 { 16 } else { *r.pick(&[1usize, 2, 3, 4, 4, 6, 8]) }
                }
            };
            (w, false)
        };
        // table modulus (const replica joins) or runtime modulus
        let table: Vec<usize> = crate::moduli::TABLE.iter().filter(|(_, l)| *l == limbs).map(|(i, _)| *i).collect();
        let use_const = !boxed_only && !table.is_empty() && (self.faults || r.chance(1, 2));
        let (modulus_id, modulus) = if use_const {
            let id = *r.pick(&table);
            (Some(id), crate::c19::const_modulus_words(id))
        } else {
            (None, gen_modulus(&mut r, limbs))
        };
        let mb = big(&modulus);
        let srcs = [ParamsSrc::New, ParamsSrc::NewVartime, ParamsSrc::FromConst];
        // swarm weights over operation groups
        let mut w = [6u32, 1, 1, 6, 6, 6, 3, 3, 3, 3, 4, 4, 1, 2, 1, 1, 1, 1, 1, 1, 1, 2, 2, 2, 2];
        for x in w.iter_mut() {
            if r.chance(1, 5) {
                *x = 0;
            } else if r.chance(1, 4) {
                *x *= 4;
            }
        }
        if !self.faults {
            w[18] = 0;
            w[19] = 0;
        } else {
            w[18] = w[18].max(1) * 6;
            w[19] = w[19].max(1) * 6;
        }
        w[0] = w[0].max(1);
        let lz_small = (64 * limbs as u64).saturating_sub(mb.bits());
        if lz_small >= 1 && lz_small <= 2 {
            w[21] = w[21].max(2) * 6; // pow on the moduli with least slack
        }
        let n_ops = r.range(4, 64) as usize;
        let reg = |r: &mut Xoshiro| r.below(REGS as u64) as usize;
        let mut ops = Vec::with_capacity(n_ops);
        // seed a few registers first
        for d in 0..r.range(1, 4) as usize {
            ops.push(Op::New { dst: d, val: gen_val(&mut r, &mb, limbs) });
        }
        while ops.len() < n_ops {
            let f = r.below(7) as u8;
            ops.push(match r.weighted(&w) {
                0 => Op::New { dst: reg(&mut r), val: gen_val(&mut r, &mb, limbs) },
                1 => Op::Zero { dst: reg(&mut r), form: f },
                2 => Op::One { dst: reg(&mut r), form: f },
                3 => Op::Bin { kind: Bin::Add, dst: reg(&mut r), a: reg(&mut r), b: reg(&mut r), form: f },
                4 => Op::Bin { kind: Bin::Sub, dst: reg(&mut r), a: reg(&mut r), b: reg(&mut r), form: f },
                5 => Op::Bin { kind: Bin::Mul, dst: reg(&mut r), a: reg(&mut r), b: reg(&mut r), form: f },
                6 => Op::Un { kind: Un::Neg, dst: reg(&mut r), a: reg(&mut r), form: f },
                7 => Op::Un { kind: Un::Double, dst: reg(&mut r), a: reg(&mut r), form: f },
                8 => Op::Un { kind: Un::Square, dst: reg(&mut r), a: reg(&mut r), form: f },
                9 => Op::Un { kind: Un::Half, dst: reg(&mut r), a: reg(&mut r), form: f },
                10 => Op::MulM { dst: reg(&mut r), b: reg(&mut r) },
                11 => Op::SquareM { dst: reg(&mut r) },
                12 => Op::ResetM,
                13 => Op::Select { dst: reg(&mut r), a: reg(&mut r), b: reg(&mut r), choice: r.chance(1, 2), form: f },
                14 => Op::Swap { a: reg(&mut r), b: reg(&mut r), choice: r.chance(1, 2) },
                15 => Op::Copy { dst: reg(&mut r), a: reg(&mut r) },
                16 => Op::ReMont { dst: reg(&mut r), a: reg(&mut r) },
                17 => {
                    if r.chance(1, 2) {
                        Op::CloneDrop { a: reg(&mut r) }
                    } else {
                        Op::ConstToDyn { dst: reg(&mut r), a: reg(&mut r) }
                    }
                }
                18 => {
                    let n = limbs as u64;
                    let mut hi_first = vec![modulus[limbs - 1]];
                    hi_first.extend_from_slice(&modulus[..limbs - 1]);
                    let uni = Seg::Uniform { seed: r.next(), len: 1 << 16 };
                    let segs = match r.below(6) {
                        0 => vec![uni],
                        1 => vec![Seg::Const { byte: 0xff, len: 8 * n * r.range(1, 5) }, uni],
                        2 => vec![Seg::Words { words: hi_first }, uni],
                        3 => vec![Seg::Words { words: modulus.clone() }, uni],
                        4 => vec![Seg::Uniform { seed: r.next(), len: r.below(8 * n + 1) }],
                        _ => vec![Seg::Const { byte: 0, len: 8 * n }, uni],
                    };
                    Op::Random { dst: reg(&mut r), tape: TapePlan { segs, fail_at_call: if r.chance(1, 4) { Some(r.below(2 * n + 1)) } else { None }, fail_at_byte: None } }
                }
                19 => {
                    let len = 8 * limbs + 8;
                    let nf = *r.pick(&[0usize, 1, 1, 1, 2]);
                    let faults = (0..nf)
                        .map(|_| match r.below(8) {
                            0 => Fault::Truncate(r.below(len as u64 * 2) as usize),
                            1 => Fault::ZeroTail(r.range(1, len as u64) as usize),
                            2 | 3 => Fault::FlipBit(r.below(8 * len as u64 * 2) as usize),
                            4 => Fault::SetAt(r.below(len as u64 * 2) as usize, *r.pick(&[0xffu8, b'f', b'F', 0x80])),
                            5 => Fault::DropByte(r.below(len as u64) as usize),
                            6 => Fault::DupByte(r.below(len as u64) as usize),
                            _ => Fault::SetAt((len as u64 - 1 - r.below(8)) as usize, 0xff),
                        })
                        .collect();
                    Op::PersistRestore {
                        reg: reg(&mut r),
                        human: r.chance(1, 2),
                        bincode: r.chance(1, 4),
                        faults,
                        style: *r.pick(&[Delivery::Transient, Delivery::Borrowed, Delivery::Owned]),
                        fail_at: if r.chance(1, 8) { Some(0) } else { None },
                        forge: if r.chance(1, 4) { r.range(1, 4) as u8 } else { 0 },
                    }
                }
                20 => Op::Zeroize { dst: reg(&mut r) },
                21 => {
                    let bits = *r.pick(&[0u32, 1, 2, 3, 4, 5, 8, 16, 17, 63, 64]);
                    let exp = match r.below(4) {
                        0 => r.below(8),
                        1 => u64::MAX,
                        _ => r.next(),
                    };
                    if r.chance(1, 3) {
                        // the exponent's own width decides how many bits count; put something into its top limb
                        let k = *r.pick(&[1usize, 2, 4]);
                        let mut e = vec![0u64; k];
                        e[0] = exp;
                        if k > 1 && r.chance(2, 3) {
                            e[k - 1] = match r.below(3) {
                                0 => 1,
                                1 => 1u64 << 63,
                                _ => r.next(),
                            };
                        }
                        Op::PowWide { dst: reg(&mut r), a: reg(&mut r), e }
                    } else {
                        Op::Pow { dst: reg(&mut r), a: reg(&mut r), exp, bits }
                    }
                }
                22 => {
                    let k = r.range(1, 5) as usize;
                    Op::Lincomb { dst: reg(&mut r), pairs: (0..k).map(|_| (reg(&mut r), reg(&mut r))).collect() }
                }
                23 => Op::Invert { dst: reg(&mut r), a: reg(&mut r), vartime: r.chance(1, 2), via: r.below(3) as u8 },
                _ => {
                    let m2 = gen_modulus(&mut r, limbs);
                    let m2b = big(&m2);
                    Op::CrossSelect { dst: reg(&mut r), a: reg(&mut r), v: gen_val(&mut r, &m2b, limbs), w: gen_val(&mut r, &m2b, limbs), m2, form: f }
                }
            });
        }
        Plan { limbs, modulus_id, modulus, src_dyn: *r.pick(&srcs), src_boxed: *r.pick(&srcs), share_arc: r.chance(1, 2), boxed_only, ops }
    }
    fn exec(&self, plan: &Plan, out: &mut RunOut) {
        exec(plan, out);
    }
    fn shrink(&self, p: &Plan) -> Vec<Plan> {
        let mut v = Vec::new();
        // ddmin-style: drop halves, quarters, then single ops
        let n = p.ops.len();
        let mut chunk = n / 2;
        while chunk >= 1 {
            let mut i = 0;
            while i < n {
                let mut q = p.clone();
                let hi = (i + chunk).min(n);
                q.ops.drain(i..hi);
                v.push(q);
                i += chunk;
            }
            if chunk == 1 {
                break;
            }
            chunk /= 2;
        }
        // simpler operation forms
        for (i, op) in p.ops.iter().enumerate() {
            match op {
                Op::Bin { kind, dst, a, b, form } if *form != 0 => {
                    let mut q = p.clone();
                    q.ops[i] = Op::Bin { kind: *kind, dst: *dst, a: *a, b: *b, form: 0 };
                    v.push(q);
                }
                Op::Un { kind, dst, a, form } if *form != 0 => {
                    let mut q = p.clone();
                    q.ops[i] = Op::Un { kind: *kind, dst: *dst, a: *a, form: 0 };
                    v.push(q);
                }
                Op::New { dst, val } if val.iter().any(|&x| x > 1) => {
                    let mut q = p.clone();
                    let mut w = vec![0u64; val.len()];
                    w[0] = 1;
                    q.ops[i] = Op::New { dst: *dst, val: w };
                    v.push(q);
                }
                _ => {}
            }
        }
        if p.share_arc {
            let mut q = p.clone();
            q.share_arc = false;
            v.push(q);
        }
        v
    }
}
