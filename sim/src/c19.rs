//! C19 — random sampling through the RNG seam.
//!
//! Scenario `c19-script`: one sampling call driven by a simulated tape (uniform / adversarial /
//! finite / failing), judged against property-level statements R1–R4, R6 (reported as C11), R7.
//! Scenario `c19-stat`: uniformity (R5) over seeded uniform tapes.

use crate::core::{RunOut, Tier, TypedScenario};
use crate::dev::rng::*;
use crate::monitor::{Guarded, PanicInfo, guard};
use crate::prng::{Xoshiro, mix};
use crate::util::{self, big, bits, hexw, is_odd, is_zero, pow2};
use crate::with_limbs;
use crypto_bigint::modular::{ConstMontyForm, ConstMontyParams};
use crypto_bigint::{
    BoxedUint, Int, Limb, NonZero, Odd, Random, RandomBits, RandomBitsError, RandomMod, Uint, Wrapping,
};
use serde::{Deserialize, Serialize};
use serde_json::json;

#[derive(Clone, Copy, Debug, Serialize, Deserialize, PartialEq, Eq, PartialOrd, Ord)]
pub enum Api {
    LimbRandom,
    LimbRandomMod,
    UintRandom,
    UintRandomBits,
    UintRandomBitsPrec,
    UintRandomMod,
    IntRandom,
    IntRandomBits,
    IntRandomBitsPrec,
    BoxedRandomBits,
    BoxedRandomBitsPrec,
    BoxedRandomMod,
    NzLimb,
    NzUint,
    NzInt,
    OddUint,
    OddBoxed,
    WrappingUint,
    WrappingLimb,
    ConstMonty,
}

impl Api {
    fn is_bits(self) -> bool {
        matches!(
            self,
            Api::UintRandomBits
                | Api::UintRandomBitsPrec
                | Api::IntRandomBits
                | Api::IntRandomBitsPrec
                | Api::BoxedRandomBits
                | Api::BoxedRandomBitsPrec
        )
    }
    fn is_mod(self) -> bool {
        matches!(self, Api::LimbRandomMod | Api::UintRandomMod | Api::BoxedRandomMod)
    }
    fn boxed_twin(self) -> Option<Api> {
        match self {
            // the signed fixed-width integer is a fixed integer of that width like any other: same API family
            // (`random_bits`), same bits from the same stream
            Api::UintRandomBits | Api::UintRandomBitsPrec | Api::IntRandomBits | Api::IntRandomBitsPrec => Some(Api::BoxedRandomBitsPrec),
            Api::UintRandomMod => Some(Api::BoxedRandomMod),
            _ => None,
        }
    }
}

#[derive(Clone, Copy, Debug, Serialize, Deserialize, PartialEq, Eq)]
pub enum Front {
    /// `try_*` form over the fallible front-end
    Try,
    /// infallible form (`random`, `random_mod`, `random_bits`) over the infallible front-end
    Infallible,
    /// documented-panicking wrapper (`random_bits`, `random_bits_with_precision`,
    /// `Odd::<BoxedUint>::random`) over the *fallible* front-end
    PanickingTry,
}

#[derive(Clone, Debug, Serialize, Deserialize)]
pub struct Plan {
    pub api: Api,
    /// limb count of the fixed type; for boxed-only APIs ceil(precision/64)
    pub limbs: usize,
    pub front: Front,
    /// modulus words (little-endian words), `limbs` long, for *_mod
    #[serde(default)]
    pub modulus: Vec<u64>,
    #[serde(default)]
    pub bit_length: u32,
    #[serde(default)]
    pub precision: u32,
    /// index into the compile-time modulus table (ConstMonty)
    #[serde(default)]
    pub modulus_id: usize,
    pub tape: TapePlan,
    /// R4: also run the boxed twin on the same tape and compare value and consumption
    #[serde(default)]
    pub compare_boxed: bool,
    /// R7: re-run with a failure injected at every call index
    #[serde(default)]
    pub enumerate_failures: bool,
    /// R6: byte offset at which the tape turns uniform for good (None: no liveness claim)
    #[serde(default)]
    pub healthy_from: Option<u64>,
    /// R7: after a call that failed on an injected fault, call again on the continuing (healthy) tape
    #[serde(default)]
    pub recover: bool,
    /// independence of consecutive calls: a second call on the continuing tape must equal a first call on a
    /// fresh tape started at the same position (nothing may leak from one call into the next)
    #[serde(default)]
    pub twice: bool,
}

#[derive(Clone, Debug, PartialEq, Eq)]
pub enum Res {
    Val { words: Vec<u64>, prec: u32 },
    ErrRng(SimRngFault),
    ErrPrec,
    ErrTooLarge,
    Panic(PanicInfo),
    Budget,
    Unsupported,
}

impl Res {
    fn kind(&self) -> &'static str {
        match self {
            Res::Val { .. } => "val",
            Res::ErrRng(_) => "err-rng",
            Res::ErrPrec => "err-precision-mismatch",
            Res::ErrTooLarge => "err-bit-length-too-large",
            Res::Panic(_) => "panic",
            Res::Budget => "budget",
            Res::Unsupported => "unsupported",
        }
    }
}

fn from_bits_err<T>(r: Result<T, RandomBitsError<SimRngFault>>, f: impl FnOnce(T) -> Res) -> Res {
    match r {
        Ok(v) => f(v),
        Err(RandomBitsError::RandCore(e)) => Res::ErrRng(e),
        Err(RandomBitsError::BitsPrecisionMismatch { .. }) => Res::ErrPrec,
        Err(RandomBitsError::BitLengthTooLarge { .. }) => Res::ErrTooLarge,
    }
}

fn flatten(g: Guarded<Res>) -> Res {
    match g {
        Guarded::Done(r) => r,
        Guarded::Panic(p) => Res::Panic(p),
        Guarded::Budget => Res::Budget,
    }
}

fn uval<const N: usize>(u: Uint<N>) -> Res {
    Res::Val { words: u.to_words().to_vec(), prec: 64 * N as u32 }
}
fn bval(b: BoxedUint) -> Res {
    Res::Val { words: b.to_words().to_vec(), prec: b.bits_precision() }
}
fn lval(l: Limb) -> Res {
    Res::Val { words: vec![l.0], prec: 64 }
}

fn nz_uint<const N: usize>(words: &[u64]) -> Option<NonZero<Uint<N>>> {
    let mut w = [0u64; N];
    w.copy_from_slice(&words[..N]);
    Option::from(NonZero::new(Uint::<N>::from_words(w)))
}

macro_rules! const_monty_table {
    ($( ($idx:expr, $name:ident, $n:expr) ),* $(,)?) => {
        fn const_monty_random(id: usize, front: Front, tape: &mut Tape) -> Res {
            use crate::moduli::*;
            match id {
                $( $idx => {
                    type F = ConstMontyForm<$name, $n>;
                    match front {
                        Front::Infallible => flatten(guard(|| uval(F::random(&mut SimRng(tape)).retrieve()))),
                        _ => flatten(guard(|| match F::try_random(&mut SimTryRng(tape)) {
                            Ok(v) => uval(v.retrieve()),
                            Err(e) => Res::ErrRng(e),
                        })),
                    }
                } )*
                _ => Res::Unsupported,
            }
        }
    };
}
crate::for_each_modulus_small!(const_monty_table);

macro_rules! const_monty_words {
    ($( ($idx:expr, $name:ident, $n:expr) ),* $(,)?) => {
        pub fn const_modulus_words(id: usize) -> Vec<u64> {
            use crate::moduli::*;
            match id {
                $( $idx => <$name as ConstMontyParams<$n>>::MODULUS.as_ref().to_words().to_vec(), )*
                _ => vec![],
            }
        }
    };
}
crate::for_each_modulus!(const_monty_words);

/// One library call against the tape.
pub fn call(p: &Plan, api: Api, tape: &mut Tape) -> Res {
    let fr = p.front;
    match api {
        Api::LimbRandom => match fr {
            Front::Infallible => flatten(guard(|| lval(Limb::random(&mut SimRng(tape))))),
            _ => flatten(guard(|| match Limb::try_random(&mut SimTryRng(tape)) {
                Ok(v) => lval(v),
                Err(e) => Res::ErrRng(e),
            })),
        },
        Api::WrappingLimb => match fr {
            Front::Infallible => flatten(guard(|| lval(Wrapping::<Limb>::random(&mut SimRng(tape)).0))),
            _ => flatten(guard(|| match Wrapping::<Limb>::try_random(&mut SimTryRng(tape)) {
                Ok(v) => lval(v.0),
                Err(e) => Res::ErrRng(e),
            })),
        },
        Api::NzLimb => match fr {
            Front::Infallible => flatten(guard(|| lval(NonZero::<Limb>::random(&mut SimRng(tape)).get()))),
            _ => flatten(guard(|| match NonZero::<Limb>::try_random(&mut SimTryRng(tape)) {
                Ok(v) => lval(v.get()),
                Err(e) => Res::ErrRng(e),
            })),
        },
        Api::LimbRandomMod => {
            let Some(m) = Option::<NonZero<Limb>>::from(NonZero::new(Limb(p.modulus[0]))) else { return Res::Unsupported };
            match fr {
                Front::Infallible => flatten(guard(|| lval(Limb::random_mod(&mut SimRng(tape), &m)))),
                _ => flatten(guard(|| match Limb::try_random_mod(&mut SimTryRng(tape), &m) {
                    Ok(v) => lval(v),
                    Err(e) => Res::ErrRng(e),
                })),
            }
        }
        Api::ConstMonty => const_monty_random(p.modulus_id, fr, tape),
        Api::BoxedRandomBits => match fr {
            Front::Try => flatten(guard(|| from_bits_err(BoxedUint::try_random_bits(&mut SimTryRng(tape), p.bit_length), bval))),
            Front::PanickingTry => flatten(guard(|| bval(BoxedUint::random_bits(&mut SimTryRng(tape), p.bit_length)))),
            Front::Infallible => flatten(guard(|| bval(BoxedUint::random_bits(&mut SimRng(tape), p.bit_length)))),
        },
        Api::BoxedRandomBitsPrec => match fr {
            Front::Try => flatten(guard(|| {
                from_bits_err(BoxedUint::try_random_bits_with_precision(&mut SimTryRng(tape), p.bit_length, p.precision), bval)
            })),
            Front::PanickingTry => {
                flatten(guard(|| bval(BoxedUint::random_bits_with_precision(&mut SimTryRng(tape), p.bit_length, p.precision))))
            }
            Front::Infallible => {
                flatten(guard(|| bval(BoxedUint::random_bits_with_precision(&mut SimRng(tape), p.bit_length, p.precision))))
            }
        },
        Api::BoxedRandomMod => {
            let m = BoxedUint::from_words(p.modulus.iter().copied());
            let Some(m) = Option::<NonZero<BoxedUint>>::from(NonZero::new(m)) else { return Res::Unsupported };
            match fr {
                Front::Infallible => flatten(guard(|| bval(BoxedUint::random_mod(&mut SimRng(tape), &m)))),
                _ => flatten(guard(|| match BoxedUint::try_random_mod(&mut SimTryRng(tape), &m) {
                    Ok(v) => bval(v),
                    Err(e) => Res::ErrRng(e),
                })),
            }
        }
        Api::OddBoxed => match fr {
            Front::Infallible => flatten(guard(|| bval(Odd::<BoxedUint>::random(&mut SimRng(tape), p.bit_length).get()))),
            _ => flatten(guard(|| bval(Odd::<BoxedUint>::random(&mut SimTryRng(tape), p.bit_length).get()))),
        },
        _ => with_limbs!(p.limbs, N, { call_fixed::<N>(p, api, tape) }, else { Res::Unsupported }),
    }
}

fn call_fixed<const N: usize>(p: &Plan, api: Api, tape: &mut Tape) -> Res {
    let fr = p.front;
    macro_rules! random_of {
        ($ty:ty, $conv:expr) => {
            match fr {
                Front::Infallible => flatten(guard(|| $conv(<$ty>::random(&mut SimRng(tape))))),
                _ => flatten(guard(|| match <$ty>::try_random(&mut SimTryRng(tape)) {
                    Ok(v) => $conv(v),
                    Err(e) => Res::ErrRng(e),
                })),
            }
        };
    }
    macro_rules! bits_of {
        ($ty:ty, $conv:expr, prec: $prec:expr) => {
            match (fr, $prec) {
                (Front::Try, None) => flatten(guard(|| from_bits_err(<$ty>::try_random_bits(&mut SimTryRng(tape), p.bit_length), $conv))),
                (Front::PanickingTry, None) => flatten(guard(|| $conv(<$ty>::random_bits(&mut SimTryRng(tape), p.bit_length)))),
                (Front::Infallible, None) => flatten(guard(|| $conv(<$ty>::random_bits(&mut SimRng(tape), p.bit_length)))),
                (Front::Try, Some(pr)) => {
                    flatten(guard(|| from_bits_err(<$ty>::try_random_bits_with_precision(&mut SimTryRng(tape), p.bit_length, pr), $conv)))
                }
                (Front::PanickingTry, Some(pr)) => {
                    flatten(guard(|| $conv(<$ty>::random_bits_with_precision(&mut SimTryRng(tape), p.bit_length, pr))))
                }
                (Front::Infallible, Some(pr)) => {
                    flatten(guard(|| $conv(<$ty>::random_bits_with_precision(&mut SimRng(tape), p.bit_length, pr))))
                }
            }
        };
    }
    let ival = |i: Int<N>| uval(*i.as_uint());
    match api {
        Api::UintRandom => random_of!(Uint<N>, uval),
        Api::IntRandom => random_of!(Int<N>, ival),
        Api::WrappingUint => random_of!(Wrapping<Uint<N>>, |w: Wrapping<Uint<N>>| uval(w.0)),
        Api::NzUint => random_of!(NonZero<Uint<N>>, |w: NonZero<Uint<N>>| uval(w.get())),
        Api::NzInt => random_of!(NonZero<Int<N>>, |w: NonZero<Int<N>>| ival(w.get())),
        Api::OddUint => random_of!(Odd<Uint<N>>, |w: Odd<Uint<N>>| uval(w.get())),
        Api::UintRandomBits => bits_of!(Uint<N>, uval, prec: None::<u32>),
        Api::UintRandomBitsPrec => bits_of!(Uint<N>, uval, prec: Some(p.precision)),
        Api::IntRandomBits => bits_of!(Int<N>, ival, prec: None::<u32>),
        Api::IntRandomBitsPrec => bits_of!(Int<N>, ival, prec: Some(p.precision)),
        Api::UintRandomMod => {
            let Some(m) = nz_uint::<N>(&p.modulus) else { return Res::Unsupported };
            match fr {
                Front::Infallible => flatten(guard(|| uval(Uint::<N>::random_mod(&mut SimRng(tape), &m)))),
                _ => flatten(guard(|| match Uint::<N>::try_random_mod(&mut SimTryRng(tape), &m) {
                    Ok(v) => uval(v),
                    Err(e) => Res::ErrRng(e),
                })),
            }
        }
        _ => Res::Unsupported,
    }
}

// ---------------------------------------------------------------------------------------------
// oracles

fn modulus_class(m: &[u64]) -> String {
    let n = m.iter().rposition(|&w| w != 0).map(|i| i + 1).unwrap_or(0);
    if n == 0 {
        return "zero".into();
    }
    let top = m[n - 1];
    let topc = if top == 1 {
        "1".to_string()
    } else if top == u64::MAX {
        "MAX".into()
    } else if top.is_power_of_two() {
        "2^j".into()
    } else if (top + 1).is_power_of_two() {
        "2^j-1".into()
    } else if (top - 1).is_power_of_two() {
        "2^j+1".into()
    } else {
        "other".into()
    };
    let low = &m[..n - 1];
    let lowc = if low.is_empty() {
        "-"
    } else if low.iter().all(|&w| w == 0) {
        "0"
    } else if low.iter().all(|&w| w == u64::MAX) {
        "MAX"
    } else {
        "mixed"
    };
    format!("n{}of{}:top={}:low={}", n, m.len(), topc, lowc)
}

fn sig(p: &Plan, extra: &str) -> String {
    let mut s = format!("{:?}:{:?}:limbs={}", p.api, p.front, p.limbs);
    if !extra.is_empty() {
        s.push(':');
        s.push_str(extra);
    }
    s
}

/// What the documentation says about argument errors. None: no argument error expected.
fn expected_arg_errors(p: &Plan, api: Api) -> Vec<&'static str> {
    let fixed_bits = 64 * p.limbs as u32;
    let mut v = Vec::new();
    match api {
        Api::UintRandomBits | Api::IntRandomBits => {
            if p.bit_length > fixed_bits {
                v.push("err-bit-length-too-large");
            }
        }
        Api::UintRandomBitsPrec | Api::IntRandomBitsPrec => {
            if p.precision != fixed_bits {
                v.push("err-precision-mismatch");
            }
            if p.bit_length > p.precision || p.bit_length > fixed_bits {
                v.push("err-bit-length-too-large");
            }
        }
        Api::BoxedRandomBitsPrec => {
            if p.bit_length > p.precision {
                v.push("err-bit-length-too-large");
            }
        }
        _ => {}
    }
    v
}

fn modulus_for(p: &Plan, api: Api) -> Option<Vec<u64>> {
    match api {
        Api::LimbRandomMod => Some(vec![p.modulus[0]]),
        Api::UintRandomMod | Api::BoxedRandomMod => Some(p.modulus.clone()),
        Api::ConstMonty => Some(const_modulus_words(p.modulus_id)),
        _ => None,
    }
}

struct Obs {
    res: Res,
    bytes: u64,
    calls: u64,
    faults: Vec<SimRngFault>,
}

fn observe(p: &Plan, api: Api, tp: &TapePlan) -> (Obs, Tape) {
    let mut tape = Tape::new(tp);
    let res = call(p, api, &mut tape);
    (Obs { res, bytes: tape.bytes, calls: tape.calls, faults: tape.faults_fired.clone() }, tape)
}

fn narrowed(p: &Plan, f: impl FnOnce(&mut Plan)) -> Option<serde_json::Value> {
    let mut q = p.clone();
    f(&mut q);
    serde_json::to_value(q).ok()
}

/// Judge one observation against R1, R2, R3 and precision.
fn judge(p: &Plan, api: Api, tp: &TapePlan, o: &Obs, out: &mut RunOut, replay: &dyn Fn() -> Option<serde_json::Value>) {
    let arg_errs = expected_arg_errors(p, api);
    let kind = o.res.kind();
    let panicking = p.front == Front::PanickingTry && (api.is_bits() || api == Api::OddBoxed)
        || (api == Api::OddBoxed && p.front == Front::Try);
    let infallible = p.front == Front::Infallible;
    // --- R2: argument errors
    if !arg_errs.is_empty() {
        let ok = if panicking || infallible {
            // documented: the panicking wrappers unwind iff the try_ form errs
            matches!(o.res, Res::Panic(_))
        } else {
            arg_errs.contains(&kind)
        };
        if !ok && (panicking || infallible) {
            out.viol(
                "C11/missing-panic",
                sig(p, &format!("{:?}:expected-panic-on={}", api, arg_errs.join("|"))),
                format!("bit_length={} precision={}: the panicking wrapper is documented to panic when the try_ form errs, got {}", p.bit_length, p.precision, kind),
                replay(),
            );
        }
        if !ok {
            out.viol(
                "C19/error-kind",
                sig(p, &format!("{:?}:expected={}", api, arg_errs.join("|"))),
                format!("bit_length={} precision={} -> {}; documented error {}", p.bit_length, p.precision, kind, arg_errs.join(" or ")),
                replay(),
            );
        }
        if o.bytes != 0 {
            // not a property statement; recorded as a probe only
            out.count("probe:bytes-consumed-before-argument-error");
        }
        return;
    }
    // OddBoxed with bit_length 0 has no admissible value; nothing is promised (see DESIGN C19).
    if api == Api::OddBoxed && p.bit_length == 0 {
        return;
    }
    // --- R2/R7: RNG faults
    let fired = o.faults.first().copied();
    match (&o.res, fired) {
        (Res::Val { .. }, Some(f)) => {
            out.viol(
                "C19/error-swallowed",
                sig(p, &format!("{:?}", api)),
                format!("RNG returned fault {:#x} at call {} but the API returned a value", f.id, f.call),
                replay(),
            );
            return;
        }
        (Res::ErrRng(e), Some(f)) => {
            if *e != f {
                out.viol(
                    "C19/error-kind",
                    sig(p, &format!("{:?}:rng-error-identity", api)),
                    format!("API returned RNG error {:?}, injected {:?}", e, f),
                    replay(),
                );
            }
            return;
        }
        (Res::ErrRng(e), None) => {
            out.viol(
                "C19/error-spurious",
                sig(p, &format!("{:?}", api)),
                format!("API returned RNG error {:?} but no fault was injected", e),
                replay(),
            );
            return;
        }
        (Res::Panic(pi), _) if pi.location == crate::monitor::LIVELOCK_MARK => {
            out.viol("C11/unexpected-panic", sig(p, &format!("{:?}:{}", api, pi.location)), pi.message.clone(), replay());
            out.viol(
                "C19/error-swallowed",
                sig(p, &format!("{:?}:rng-errors-never-surface", api)),
                "the RNG returned an error 10000 times in a row during one call and the API never reported it".into(),
                replay(),
            );
            return;
        }
        (Res::Panic(pi), Some(_)) if panicking => {
            // documented panic on RNG failure
            let _ = pi;
            out.count("expected-panic:rng-failure-in-panicking-wrapper");
            return;
        }
        (Res::Budget, _) => return, // infallible front-end ran off the tape
        (Res::Panic(pi), fault) => {
            out.viol(
                "C11/unexpected-panic",
                sig(p, &format!("{:?}:{}", api, pi.location)),
                format!("panic at {}: {}", pi.location, pi.message),
                replay(),
            );
            // the sampling property itself: with admissible arguments the call returns a value (or, on the fallible
            // front-end, the RNG's own error) — an unwind is neither
            match fault {
                None => out.viol(
                    "C19/error-spurious",
                    sig(p, &format!("{:?}:panic", api)),
                    format!("bit_length={} precision={}: admissible arguments and a healthy stream, but the call unwound at {} ({}) instead of returning a value", p.bit_length, p.precision, pi.location, pi.message),
                    replay(),
                ),
                Some(f) => out.viol(
                    "C19/error-kind",
                    sig(p, &format!("{:?}:panic-on-rng-error", api)),
                    format!("the RNG failed at call {} and the fallible API unwound at {} ({}) instead of returning that error", f.call, pi.location, pi.message),
                    replay(),
                ),
            }
            return;
        }
        (Res::ErrPrec | Res::ErrTooLarge, _) => {
            out.viol(
                "C19/error-spurious",
                sig(p, &format!("{:?}:{}", api, kind)),
                format!("bit_length={} precision={} limbs={} -> {} although the arguments are admissible", p.bit_length, p.precision, p.limbs, kind),
                replay(),
            );
            return;
        }
        (Res::Unsupported, _) => return,
        (Res::Val { .. }, None) => {}
    }
    let Res::Val { words, prec } = &o.res else { return };
    // --- R1: range
    if let Some(m) = modulus_for(p, api) {
        if big(words) >= big(&m) {
            out.viol(
                "C19/range",
                sig(p, &format!("{:?}:{}:{}", api, modulus_class(&m), tp.class())),
                format!("result {} >= modulus {}", hexw(words), hexw(&m)),
                replay(),
            );
        }
    }
    if api.is_bits() || api == Api::OddBoxed {
        if bits(words) > p.bit_length {
            out.viol(
                "C19/range",
                sig(p, &format!("{:?}:bits:{}", api, tp.class())),
                format!("result {} has {} bits > bit_length {}", hexw(words), bits(words), p.bit_length),
                replay(),
            );
        }
    }
    // --- precision of boxed results
    let want_prec = match api {
        // a zero-limb integer is not demanded: precision 0 may come back as one limb
        Api::BoxedRandomBits | Api::OddBoxed => Some(p.bit_length.div_ceil(64) * 64),
        Api::BoxedRandomBitsPrec => Some(p.precision.div_ceil(64) * 64),
        Api::BoxedRandomMod => Some(p.modulus.len() as u32 * 64),
        _ => None,
    };
    if let Some(w) = want_prec {
        if *prec != w && !(w == 0 && *prec == 64) {
            out.viol(
                "C19/precision",
                sig(p, &format!("{:?}", api)),
                format!("boxed result precision {} != requested precision rounded up to a limb {}", prec, w),
                replay(),
            );
        }
    }
    // --- R3: wrapper invariants
    match api {
        Api::NzLimb | Api::NzUint | Api::NzInt if is_zero(words) => {
            out.viol("C19/wrapper-invariant", sig(p, &format!("{:?}:{}", api, tp.class())), "random NonZero is zero".into(), replay());
        }
        Api::OddUint | Api::OddBoxed if !is_odd(words) => {
            out.viol(
                "C19/wrapper-invariant",
                sig(p, &format!("{:?}:{}", api, tp.class())),
                format!("random Odd is even: {}", hexw(words)),
                replay(),
            );
        }
        _ => {}
    }
}

fn exec_plan(p: &Plan, out: &mut RunOut) {
    let calls = exec_one(p, out, None);
    // --- R7: failure at every consumption point
    if let Some(n) = calls {
        if p.enumerate_failures && p.front != Front::Infallible {
            for k in 0..n.min(96) {
                let mut q = p.clone();
                q.tape.fail_at_call = Some(k);
                q.tape.fail_at_byte = None;
                q.enumerate_failures = false;
                q.compare_boxed = false;
                q.healthy_from = None;
                q.recover = true;
                out.count("probe:failure-enumerated");
                exec_one(&q, out, serde_json::to_value(&q).ok());
            }
        }
    }
}

/// Returns the number of RNG calls if the run completed with a value and no fault.
fn exec_one(p: &Plan, out: &mut RunOut, replay_plan: Option<serde_json::Value>) -> Option<u64> {
    let api = p.api;
    let (o, mut tape) = observe(p, api, &p.tape);
    out.ev(&format!("{:?}/{:?}/{}/{}/{}", api, p.front, o.res.kind(), o.bytes, o.calls));
    if let Res::Val { words, .. } = &o.res {
        out.digest.words(words);
    }
    for f in &o.faults {
        match f.id {
            FAULT_AT_CALL => out.count("fault:rng-fail-at-call"),
            FAULT_AT_BYTE => out.count("fault:rng-fail-at-byte"),
            _ => out.count("fault:rng-tape-exhausted"),
        }
    }
    if matches!(o.res, Res::Budget) {
        out.count("fault:rng-tape-exhausted");
    }
    out.add("rng:calls-next_u32", tape.by_method[0]);
    out.add("rng:calls-next_u64", tape.by_method[1]);
    out.add("rng:calls-fill_bytes", tape.by_method[2]);
    judge(p, api, &p.tape, &o, out, &|| replay_plan.clone());
    if p.twice && o.faults.is_empty() && matches!(o.res, Res::Val { .. }) && p.tape.fail_at_call.is_none() && p.tape.fail_at_byte.is_none() {
        let consumed = tape.bytes;
        let res_second = call(p, api, &mut tape);
        let bytes_second = tape.bytes - consumed;
        let mut fresh = Tape::new(&p.tape);
        fresh.skip(consumed);
        let res_fresh = call(p, api, &mut fresh);
        out.ev(&format!("twice/{}/{}", res_second.kind(), res_fresh.kind()));
        out.count("probe:consecutive-call-independence-checked");
        let same = match (&res_second, &res_fresh) {
            (Res::Val { words: a, .. }, Res::Val { words: b, .. }) => a == b && bytes_second == fresh.bytes,
            (a, b) => a.kind() == b.kind(),
        };
        if !same {
            out.viol(
                "C19/call-dependence",
                sig(p, &format!("{:?}:second-call-depends-on-first", api)),
                format!("a second call on the continuing stream returned {:?} ({} bytes) but the same call on a fresh stream at that position returns {:?} ({} bytes)", res_second.kind(), bytes_second, res_fresh.kind(), fresh.bytes),
                replay_plan.clone(),
            );
        }
    }
    if p.recover && !o.faults.is_empty() && o.faults.iter().all(|f| f.id != FAULT_EXHAUSTED) {
        // the RNG has recovered: the same API on the same (continuing) tape must now succeed
        let before = tape.faults_fired.len();
        let res2 = call(p, api, &mut tape);
        out.ev(&format!("after-fail/{}", res2.kind()));
        let refaulted = tape.faults_fired.len() > before;
        let arg_err = !expected_arg_errors(p, api).is_empty();
        if !matches!(res2, Res::Val { .. }) && !refaulted && !matches!(res2, Res::Budget) && !arg_err {
            out.viol(
                "C19/error-spurious",
                sig(p, &format!("{:?}:after-recovered-failure", api)),
                format!("after an injected RNG failure the next call on the healthy continuing tape returned {}", res2.kind()),
                replay_plan.clone(),
            );
        }
        out.count("probe:recovery-after-failure-checked");
    }

    // abstract state
    let mclass = modulus_for(p, api).map(|m| modulus_class(&m)).unwrap_or_else(|| {
        if api.is_bits() || api == Api::OddBoxed {
            let b = p.bit_length;
            format!("bits%64={}", if b == 0 { "zero".to_string() } else { ((b - 1) % 64 / 16).to_string() })
        } else {
            "-".into()
        }
    });
    let min_bytes = match api {
        _ if api.is_mod() || api == Api::ConstMonty => modulus_for(p, api).map(|m| (bits(&m) as u64).div_ceil(64) * 8).unwrap_or(0),
        Api::LimbRandom | Api::NzLimb | Api::WrappingLimb => 8,
        Api::UintRandom | Api::IntRandom | Api::NzUint | Api::NzInt | Api::OddUint | Api::WrappingUint => 8 * p.limbs as u64,
        _ => 0,
    };
    let rej = if min_bytes == 0 || !matches!(o.res, Res::Val { .. }) {
        "-".to_string()
    } else {
        let r = (o.bytes.saturating_sub(min_bytes)) / min_bytes.max(1);
        if r >= 3 { "3+".into() } else { r.to_string() }
    };
    if rej != "-" && rej != "0" {
        out.count("probe:rejection-observed");
    }
    if api.is_mod() && matches!(o.res, Res::Val { .. }) {
        let n_limbs = modulus_for(p, api).map(|m| (bits(&m) as u64).div_ceil(64)).unwrap_or(1);
        if n_limbs > 1 && o.bytes >= 2 * n_limbs * 8 {
            out.count("probe:full-width-rejection-after-top-limb-acceptance");
        }
    }
    out.state(format!("{:?}|{:?}|w{}|{}|{}|rej{}|{}", api, p.front, p.limbs.min(40), mclass, p.tape.class(), rej, o.res.kind()));

    // --- R6 bounded liveness (reported under C11)
    if let Some(h) = p.healthy_from {
        let starved = matches!(o.res, Res::Budget) || matches!(&o.res, Res::ErrRng(e) if e.id == FAULT_EXHAUSTED);
        let round = min_bytes.max(8);
        if starved && tape.remaining() < round && p.tape.total_len() >= h + 256 * round {
            out.viol(
                "C11/non-termination",
                sig(p, &format!("{:?}:{}", api, mclass)),
                format!("no result within {} rounds of a healthy uniform stream after the adversarial prefix", (p.tape.total_len() - h) / round),
                None,
            );
        }
        out.count("probe:liveness-checked");
    }

    // --- R4 width independence: fixed vs boxed on the same tape
    if p.compare_boxed {
        if let Some(twin) = api.boxed_twin() {
            let fixed_bits = 64 * p.limbs as u32;
            if !matches!(api, Api::UintRandomBitsPrec | Api::IntRandomBitsPrec) || p.precision == fixed_bits {
                let mut q = p.clone();
                q.precision = fixed_bits;
                let (ob, _) = observe(&q, twin, &p.tape);
                out.ev(&format!("twin/{:?}/{}/{}", twin, ob.res.kind(), ob.bytes));
                judge(&q, twin, &p.tape, &ob, out, &|| {
                    narrowed(&q, |x| {
                        x.api = twin;
                        x.compare_boxed = false;
                        x.enumerate_failures = false;
                    })
                });
                out.count("probe:fixed-boxed-compared");
                match (&o.res, &ob.res) {
                    (Res::Val { words: a, .. }, Res::Val { words: b, .. }) => {
                        if a != b || o.bytes != ob.bytes {
                            out.viol(
                                "C19/fixed-boxed-diverge",
                                sig(p, &format!("{:?}", api)),
                                format!("fixed {} ({} bytes) vs boxed {} ({} bytes) on the same tape", hexw(a), o.bytes, hexw(b), ob.bytes),
                                None,
                            );
                        }
                    }
                    (a, b) if a.kind() != b.kind() && o.faults.is_empty() && ob.faults.is_empty() => {
                        out.viol(
                            "C19/fixed-boxed-diverge",
                            sig(p, &format!("{:?}:outcome", api)),
                            format!("fixed outcome {} vs boxed outcome {} on the same tape and arguments", a.kind(), b.kind()),
                            None,
                        );
                    }
                    _ => {}
                }
            }
        }
    }

    if o.faults.is_empty() && matches!(o.res, Res::Val { .. }) { Some(o.calls) } else { None }
}

// ---------------------------------------------------------------------------------------------
// plan generation

pub struct Script;

const QUICK_WIDTHS: [usize; 3] = [1, 2, 4];
const ALL_WIDTHS: [usize; 6] = [1, 2, 3, 4, 8, 16];

fn widths(t: Tier) -> &'static [usize] {
    match t {
        Tier::Quick => &QUICK_WIDTHS,
        Tier::Thorough => &ALL_WIDTHS,
    }
}

/// Enumerated part: every bit length 0..=BITS+1 for each width × {Uint, Int, Boxed, BoxedPrec} × {ones, uniform}.
fn enumerated(t: Tier) -> Vec<(Api, usize, u32, u8)> {
    let mut v = Vec::new();
    for &w in widths(t) {
        let bitsw = 64 * w as u32;
        for b in 0..=bitsw + 1 {
            for api in [Api::UintRandomBits, Api::IntRandomBits, Api::BoxedRandomBits, Api::BoxedRandomBitsPrec] {
                for tape in 0..2u8 {
                    v.push((api, w, b, tape));
                }
            }
        }
    }
    v
}

fn gen_modulus(r: &mut Xoshiro, limbs: usize) -> Vec<u64> {
    let n = if limbs == 1 || r.chance(3, 5) { limbs } else { r.range(1, limbs as u64) as usize };
    let j = r.below(64) as u32;
    let top = match r.below(9) {
        0 => 1,
        1 => u64::MAX,
        2 => 1u64 << j,
        3 => (1u64 << j).wrapping_add(1),
        4 => (1u64 << j).wrapping_sub(1),
        5 => 2,
        6 => 3,
        7 => 0x8000_0000_0000_0000,
        _ => r.next(),
    };
    let top = if top == 0 { 1 } else { top };
    let mut m = vec![0u64; limbs];
    for w in m.iter_mut().take(n - 1) {
        *w = match r.below(4) {
            0 => 0,
            1 => u64::MAX,
            2 => 1,
            _ => r.next(),
        };
    }
    if n > 1 {
        match r.below(4) {
            0 => m[..n - 1].fill(0),
            1 => m[..n - 1].fill(u64::MAX),
            _ => {}
        }
    }
    m[n - 1] = top;
    m
}

fn gen_limb_modulus(r: &mut Xoshiro) -> u64 {
    let j = r.below(64) as u32;
    let v = match r.below(10) {
        0 => 1,
        1 => 2,
        2 => 3,
        3 => 255,
        4 => 256,
        5 => 257,
        6 => u64::MAX,
        7 => 1u64 << j,
        8 => (1u64 << j).wrapping_add(1),
        _ => r.next(),
    };
    v.max(1)
}

const TAIL: u64 = 192 * 1024;

/// Tapes for modular sampling. Returns (tape, healthy_from).
fn gen_mod_tape(r: &mut Xoshiro, m: &[u64], limb_api: bool) -> (TapePlan, Option<u64>) {
    let n = (bits(m) as usize).div_ceil(64).max(1);
    let round = if limb_api { (bits(m) as u64).div_ceil(8).max(1) } else { 8 * n as u64 };
    // candidate "word scripts" in several consumption orders (the oracle does not depend on the order)
    let hi_first = |v: &[u64]| {
        let mut s = vec![v[n - 1]];
        s.extend_from_slice(&v[..n - 1]);
        s
    };
    let mut minus1 = m[..n].to_vec();
    for w in minus1.iter_mut() {
        let (x, b) = w.overflowing_sub(1);
        *w = x;
        if !b {
            break;
        }
    }
    let mut plus1 = m[..n].to_vec();
    for w in plus1.iter_mut() {
        let (x, c) = w.overflowing_add(1);
        *w = x;
        if !c {
            break;
        }
    }
    let uni = Seg::Uniform { seed: r.next(), len: TAIL };
    let mut segs = Vec::new();
    let mut healthy = None;
    let kind = r.below(14);
    let script_bytes = |ws: &[u64]| -> Seg {
        if limb_api {
            Seg::Script { bytes: ws[0].to_le_bytes()[..round as usize].to_vec() }
        } else {
            Seg::Words { words: ws.to_vec() }
        }
    };
    match kind {
        0 | 1 => segs.push(uni),
        2 => {
            segs.push(Seg::Const { byte: 0, len: round * r.below(4) });
            segs.push(uni);
        }
        3 => {
            let pre = round * r.range(1, 40);
            segs.push(Seg::Const { byte: 0xff, len: pre });
            healthy = Some(pre);
            segs.push(uni);
        }
        4 => {
            // exactly the modulus, repeated
            let t = r.range(1, 4);
            let ws = if r.chance(1, 2) { hi_first(&m[..n]) } else { m[..n].to_vec() };
            for _ in 0..t {
                segs.push(script_bytes(&ws));
            }
            healthy = Some(round * t);
            segs.push(uni);
        }
        5 => {
            let ws = if r.chance(1, 2) { hi_first(&minus1) } else { minus1.clone() };
            segs.push(script_bytes(&ws));
            segs.push(uni);
        }
        6 => {
            let ws = if r.chance(1, 2) { hi_first(&plus1) } else { plus1.clone() };
            segs.push(script_bytes(&ws));
            segs.push(uni);
        }
        7 => {
            // top word equal to the modulus' top limb, low words MAX / 0 / modulus' own
            let mut v = m[..n].to_vec();
            let fillv = *r.pick(&[0u64, u64::MAX]);
            for w in v.iter_mut().take(n - 1) {
                *w = fillv;
            }
            segs.push(script_bytes(&hi_first(&v)));
            segs.push(uni);
        }
        8 => {
            // top word one above / one below the modulus' top limb
            let mut v = m[..n].to_vec();
            v[n - 1] = if r.chance(1, 2) { v[n - 1].wrapping_add(1) } else { v[n - 1].wrapping_sub(1) };
            segs.push(script_bytes(&hi_first(&v)));
            segs.push(uni);
        }
        9 => {
            // alternating reject / accept words
            let k = r.range(1, 12);
            let mut ws = Vec::new();
            for i in 0..k {
                ws.push(if i % 2 == 0 { u64::MAX } else { 0 });
            }
            segs.push(Seg::Words { words: ws });
            healthy = Some(8 * k);
            segs.push(uni);
        }
        10 => {
            // finite tape that ends mid-value
            segs.push(Seg::Uniform { seed: r.next(), len: r.below(round * 3 + 1) });
        }
        11 => {
            // adversarial forever (finite): ones
            segs.push(Seg::Const { byte: 0xff, len: 2048 });
        }
        12 => {
            // uniform prefix then ones forever
            segs.push(Seg::Uniform { seed: r.next(), len: r.below(4) * 4 });
            segs.push(Seg::Const { byte: 0xff, len: 1024 });
        }
        _ => {
            // seeded adversarial prefix (random garbage rounds) followed by uniform
            let pre = round * r.below(6);
            segs.push(Seg::Repeat { words: vec![r.next() | 0x8000_0000_0000_0000, u64::MAX], times: pre / 16 });
            healthy = Some(pre / 16 * 16);
            segs.push(uni);
        }
    }
    (TapePlan { segs, fail_at_call: None, fail_at_byte: None }, healthy)
}

fn gen_plain_tape(r: &mut Xoshiro, need: u64) -> TapePlan {
    let uni = Seg::Uniform { seed: r.next(), len: TAIL };
    let segs = match r.below(8) {
        0 | 1 | 2 => vec![uni],
        3 => vec![Seg::Const { byte: 0xff, len: TAIL }],
        4 => vec![Seg::Const { byte: 0, len: 8 * r.below(100) }, uni],
        5 => vec![Seg::Uniform { seed: r.next(), len: r.below(need + 9) }],
        6 => vec![Seg::Repeat { words: vec![0xAAAA_AAAA_AAAA_AAAA], times: 4096 }],
        _ => vec![Seg::Const { byte: 0, len: 8 * r.below(3 * (need / 8 + 1)) }, Seg::Repeat { words: vec![2, 0], times: 8 }, uni],
    };
    TapePlan { segs, fail_at_call: None, fail_at_byte: None }
}

impl TypedScenario for Script {
    type Plan = Plan;
    fn name(&self) -> &'static str {
        "c19-script"
    }
    fn n_runs(&self, tier: Tier) -> u64 {
        enumerated(tier).len() as u64
            + match tier {
                Tier::Quick => 120_000,
                Tier::Thorough => 24_000_000,
            }
    }
    fn generate(&self, seed: u64, tier: Tier, i: u64) -> Plan {
        let en = enumerated(tier);
        let mut r = Xoshiro::new(mix(seed, 0x19, i));
        if (i as usize) < en.len() {
            let (api, w, b, t) = en[i as usize];
            let tape = if t == 0 {
                TapePlan { segs: vec![Seg::Const { byte: 0xff, len: TAIL }], ..Default::default() }
            } else {
                TapePlan::uniform(r.next(), TAIL)
            };
            return Plan {
                api,
                limbs: w,
                front: Front::Try,
                modulus: vec![],
                bit_length: b,
                precision: 64 * w as u32,
                modulus_id: 0,
                tape,
                compare_boxed: matches!(api, Api::UintRandomBits),
                enumerate_failures: t == 1 && b % 7 == 0,
                healthy_from: None,
                recover: false,
                twice: false,
            };
        }
        // seeded part
        let ws = widths(tier);
        let limbs = *r.pick(ws);
        let api = *r.pick(&[
            Api::LimbRandom,
            Api::LimbRandomMod,
            Api::LimbRandomMod,
            Api::UintRandom,
            Api::UintRandomBits,
            Api::UintRandomBitsPrec,
            Api::UintRandomMod,
            Api::UintRandomMod,
            Api::UintRandomMod,
            Api::IntRandom,
            Api::IntRandomBits,
            Api::IntRandomBitsPrec,
            Api::BoxedRandomBits,
            Api::BoxedRandomBitsPrec,
            Api::BoxedRandomMod,
            Api::BoxedRandomMod,
            Api::NzLimb,
            Api::NzUint,
            Api::NzInt,
            Api::OddUint,
            Api::OddBoxed,
            Api::WrappingUint,
            Api::WrappingLimb,
            Api::ConstMonty,
        ]);
        let front = match r.below(10) {
            0..=4 => Front::Try,
            5..=7 => Front::Infallible,
            _ => Front::PanickingTry,
        };
        let mut p = Plan {
            api,
            limbs,
            front,
            modulus: vec![],
            bit_length: 0,
            precision: 64 * limbs as u32,
            modulus_id: 0,
            tape: TapePlan::default(),
            compare_boxed: r.chance(1, 2),
            enumerate_failures: r.chance(1, 8),
            healthy_from: None,
            recover: false,
            twice: false,
        };
        let fixed_bits = 64 * limbs as u32;
        match api {
            Api::LimbRandomMod => {
                p.limbs = 1;
                p.modulus = vec![gen_limb_modulus(&mut r)];
                let (t, h) = gen_mod_tape(&mut r, &p.modulus, true);
                p.tape = t;
                p.healthy_from = h;
            }
            Api::UintRandomMod => {
                p.modulus = gen_modulus(&mut r, limbs);
                let (t, h) = gen_mod_tape(&mut r, &p.modulus, false);
                p.tape = t;
                p.healthy_from = h;
            }
            Api::BoxedRandomMod => {
                // boxed-only widths too (1..=18 limbs)
                let l = if r.chance(1, 2) { limbs } else { r.range(1, 18) as usize };
                p.limbs = l;
                p.modulus = gen_modulus(&mut r, l);
                let (t, h) = gen_mod_tape(&mut r, &p.modulus, false);
                p.tape = t;
                p.healthy_from = h;
            }
            Api::ConstMonty => {
                let cands: Vec<usize> = crate::moduli::SMALL_TABLE.iter().filter(|(_, l)| ws.contains(l) || *l <= 4).map(|(i, _)| *i).collect();
                p.modulus_id = *r.pick(&cands);
                let m = const_modulus_words(p.modulus_id);
                p.limbs = m.len();
                let (t, h) = gen_mod_tape(&mut r, &m, false);
                p.tape = t;
                // for m = 1 the only admissible value is 0 and a uniform word is accepted with probability 1/2
                p.healthy_from = h;
            }
            Api::UintRandomBits | Api::IntRandomBits | Api::UintRandomBitsPrec | Api::IntRandomBitsPrec => {
                p.bit_length = match r.below(8) {
                    0 => fixed_bits,
                    1 => fixed_bits + r.range(1, 70) as u32,
                    2 => 0,
                    3 => *r.pick(&[1u32, 31, 32, 33, 63, 64, 65]).min(&fixed_bits),
                    4 => u32::MAX - r.below(3) as u32,
                    _ => r.below(fixed_bits as u64 + 1) as u32,
                };
                if matches!(api, Api::UintRandomBitsPrec | Api::IntRandomBitsPrec) {
                    p.precision = match r.below(6) {
                        0 => fixed_bits + 64,
                        1 => fixed_bits.saturating_sub(64),
                        2 => fixed_bits - 1,
                        3 => 0,
                        _ => fixed_bits,
                    };
                }
                p.tape = gen_plain_tape(&mut r, 8 * limbs as u64);
            }
            Api::BoxedRandomBits | Api::BoxedRandomBitsPrec | Api::OddBoxed => {
                let prec = match r.below(5) {
                    0 => fixed_bits,
                    1 => r.range(1, 1100) as u32,
                    2 => 64 * r.range(1, 17) as u32 + *r.pick(&[0u32, 1, 31, 32, 33, 63]),
                    3 => 0,
                    _ => r.range(1, 300) as u32,
                };
                p.precision = prec;
                p.bit_length = match r.below(6) {
                    0 => prec,
                    1 => prec.saturating_add(r.range(1, 65) as u32),
                    2 => 0,
                    _ => r.below(prec as u64 + 1) as u32,
                };
                if api == Api::BoxedRandomBits {
                    p.precision = p.bit_length;
                }
                if api == Api::OddBoxed {
                    if p.front == Front::Try {
                        p.front = Front::PanickingTry;
                    }
                    p.precision = p.bit_length;
                }
                p.limbs = (p.precision.div_ceil(64) as usize).max(1);
                p.tape = gen_plain_tape(&mut r, p.precision as u64 / 8 + 8);
            }
            _ => {
                if matches!(api, Api::LimbRandom | Api::NzLimb | Api::WrappingLimb) {
                    p.limbs = 1;
                }
                p.tape = gen_plain_tape(&mut r, 8 * p.limbs as u64);
            }
        }
        p.twice = r.chance(1, 6);
        // faults
        if p.front != Front::Infallible {
            match r.below(10) {
                0 => p.tape.fail_at_call = Some(r.below(2 * p.limbs as u64 + 3)),
                1 => p.tape.fail_at_byte = Some(r.below(16 * p.limbs as u64 + 9)),
                _ => {}
            }
        }
        if p.tape.fail_at_call.is_some() || p.tape.fail_at_byte.is_some() {
            p.healthy_from = None;
        }
        p
    }
    fn exec(&self, plan: &Plan, out: &mut RunOut) {
        exec_plan(plan, out);
    }
    fn shrink(&self, p: &Plan) -> Vec<Plan> {
        let mut v = Vec::new();
        let mut push = |f: &dyn Fn(&mut Plan)| {
            let mut q = p.clone();
            f(&mut q);
            v.push(q);
        };
        if p.enumerate_failures {
            push(&|q| q.enumerate_failures = false);
        }
        if p.compare_boxed {
            push(&|q| q.compare_boxed = false);
        }
        if p.healthy_from.is_some() && false {
            push(&|q| q.healthy_from = None);
        }
        if p.tape.fail_at_call.is_some() {
            push(&|q| q.tape.fail_at_call = None);
        }
        if p.tape.fail_at_byte.is_some() {
            push(&|q| q.tape.fail_at_byte = None);
        }
        // drop / simplify tape segments
        for i in 0..p.tape.segs.len() {
            if p.tape.segs.len() > 1 {
                push(&|q| {
                    q.tape.segs.remove(i);
                });
            }
            match &p.tape.segs[i] {
                Seg::Uniform { len, .. } if *len > 0 => {
                    let len = *len;
                    push(&|q| q.tape.segs[i] = Seg::Const { byte: 0, len });
                    push(&|q| q.tape.segs[i] = Seg::Const { byte: 0xff, len });
                    if len > 64 {
                        push(&|q| {
                            if let Seg::Uniform { len, .. } = &mut q.tape.segs[i] {
                                *len = 64
                            }
                        });
                    }
                }
                Seg::Const { byte, len } if *len > 64 => {
                    let b = *byte;
                    push(&|q| q.tape.segs[i] = Seg::Const { byte: b, len: 64 });
                }
                _ => {}
            }
        }
        // smaller arguments
        if p.bit_length > 0 && p.bit_length < 1 << 20 {
            push(&|q| q.bit_length /= 2);
            push(&|q| q.bit_length -= 1);
        }
        if !p.modulus.is_empty() {
            for i in 0..p.modulus.len() {
                if p.modulus[i] != 0 {
                    push(&|q| q.modulus[i] = 0);
                    push(&|q| q.modulus[i] >>= 1);
                }
            }
        }
        if p.front != Front::Try {
            push(&|q| q.front = Front::Try);
        }
        v
    }
}

// ---------------------------------------------------------------------------------------------
// R5 — uniformity

#[derive(Clone, Debug, Serialize, Deserialize)]
pub enum StatCfg {
    /// Limb::random_mod, cells = value (m <= 1024) or top bits
    LimbMod { m: u64 },
    /// large single-limb moduli: eighths of [0, m)
    LimbModRange { m: u64 },
    /// Uint<N>/BoxedUint random_mod with modulus t*2^(64 j) + low; cells = top-limb value x top 2 bits of next limb
    UintMod { limbs: usize, t: u64, j: usize, low: u8, boxed: bool },
    /// random_bits(b): b <= 10 all cells, else top 4 bits x bottom 4 bits
    Bits { limbs: usize, b: u32, boxed: bool },
    /// random_bits(b) for EVERY b in 1..=64*limbs: each of the top two and the lowest requested bit must
    /// come out both 0 and 1 within `per_len` draws (false-alarm probability <= 6 * 2^-per_len per length)
    BitsEveryLength { limbs: usize, boxed: bool, int: bool, per_len: u32 },
    /// `random()` of a full-width type: in every limb, bits 0, 31, 32 and 63 must each take both values within
    /// `per` draws (for Odd all but bit 0 of limb 0). kind: 0 Uint, 1 Int, 2 Wrapping, 3 NonZero, 4 Odd
    RandomEveryLimb { limbs: usize, kind: u8, per: u32 },
    /// Odd<Uint<N>>: cells over bits 1..=8 ; bit 0 must be set
    Odd { limbs: usize },
    /// NonZero<Limb>/Uint random: cells over low byte
    Nz { limbs: usize },
    /// ConstMontyForm::random for a small table modulus (cells = value)
    ConstMonty { modulus_id: usize },
    /// ConstMontyForm::random for any table modulus: 8 cells = equal eighths of [0, m) (exact cell sizes)
    ConstMontyRange { modulus_id: usize },
}

#[derive(Clone, Debug, Serialize, Deserialize)]
pub struct StatPlan {
    pub cfg: StatCfg,
    pub seed: u64,
    pub draws: u64,
}

/// Regularised upper incomplete gamma Q(a, x) — continued fraction / series (Numerical-Recipes style),
/// in log space so that 1e-12 tails are representable.
fn ln_gamma(x: f64) -> f64 {
    const G: [f64; 9] = [
        0.999_999_999_999_809_9,
        676.520_368_121_885_1,
        -1_259.139_216_722_402_8,
        771.323_428_777_653_1,
        -176.615_029_162_140_6,
        12.507_343_278_686_905,
        -0.138_571_095_265_720_12,
        9.984_369_578_019_572e-6,
        1.505_632_735_149_311_6e-7,
    ];
    let x = x - 1.0;
    let mut a = G[0];
    let t = x + 7.5;
    for (i, g) in G.iter().enumerate().skip(1) {
        a += g / (x + i as f64);
    }
    0.5 * (2.0 * std::f64::consts::PI).ln() + (x + 0.5) * t.ln() - t + a.ln()
}

pub fn chi2_sf(chi2: f64, dof: f64) -> f64 {
    let a = dof / 2.0;
    let x = chi2 / 2.0;
    if x <= 0.0 {
        return 1.0;
    }
    if x < a + 1.0 {
        // series for P, Q = 1 - P
        let mut sum = 1.0 / a;
        let mut del = sum;
        let mut ap = a;
        for _ in 0..10_000 {
            ap += 1.0;
            del *= x / ap;
            sum += del;
            if del.abs() < sum.abs() * 1e-16 {
                break;
            }
        }
        let p = (sum.ln() - x + a * x.ln() - ln_gamma(a)).exp();
        (1.0 - p).max(0.0)
    } else {
        // continued fraction for Q (Lentz)
        let tiny = 1e-300;
        let mut b = x + 1.0 - a;
        let mut c = 1.0 / tiny;
        let mut d = 1.0 / b;
        let mut h = d;
        for i in 1..10_000 {
            let an = -(i as f64) * (i as f64 - a);
            b += 2.0;
            d = an * d + b;
            if d.abs() < tiny {
                d = tiny;
            }
            c = b + an / c;
            if c.abs() < tiny {
                c = tiny;
            }
            d = 1.0 / d;
            let del = d * c;
            h *= del;
            if (del - 1.0).abs() < 1e-16 {
                break;
            }
        }
        (-x + a * x.ln() - ln_gamma(a)).exp() * h
    }
}

pub struct Stat;

fn stat_configs(tier: Tier) -> Vec<StatCfg> {
    let mut v = Vec::new();
    for m in [1u64, 2, 3, 5, 7, 10, 255, 256, 257, 1000] {
        v.push(StatCfg::LimbMod { m });
    }
    // single-limb moduli that fill (or nearly fill) the limb, and one in the middle of it
    for m in [3u64 << 62, (1u64 << 63) + 1, 1u64 << 63, u64::MAX, 0xd1b5_4a32_d192_ed03, (1u64 << 32) + 1, 5u64 << 37] {
        v.push(StatCfg::LimbModRange { m });
    }
    let widths: &[usize] = match tier {
        Tier::Quick => &[2, 3],
        Tier::Thorough => &[2, 3, 4],
    };
    for &limbs in widths {
        for t in [1u64, 2, 3, 5] {
            for low in 0..3u8 {
                for boxed in [false, true] {
                    if tier == Tier::Quick && (boxed && low != 1) {
                        continue;
                    }
                    v.push(StatCfg::UintMod { limbs, t, j: limbs - 1, low, boxed });
                }
            }
        }
    }
    // single-limb-valued moduli inside multi-limb types
    for t in [3u64, 5, 6, 255, 257] {
        v.push(StatCfg::UintMod { limbs: 2, t, j: 0, low: 0, boxed: false });
        v.push(StatCfg::UintMod { limbs: 2, t, j: 0, low: 0, boxed: true });
    }
    let bl: &[u32] = match tier {
        Tier::Quick => &[1, 2, 3, 8, 10, 63, 64, 65, 127, 128],
        Tier::Thorough => &[1, 2, 3, 4, 5, 6, 7, 8, 9, 10, 31, 32, 33, 63, 64, 65, 67, 127, 128, 129, 191, 192],
    };
    for &b in bl {
        v.push(StatCfg::Bits { limbs: 4, b, boxed: false });
        v.push(StatCfg::Bits { limbs: 4, b, boxed: true });
    }
    for (limbs, boxed, int) in [(1usize, false, false), (2, false, false), (4, false, false), (4, true, false), (2, false, true)] {
        v.push(StatCfg::BitsEveryLength { limbs, boxed, int, per_len: 512 });
    }
    if tier == Tier::Thorough {
        v.push(StatCfg::BitsEveryLength { limbs: 16, boxed: false, int: false, per_len: 512 });
        v.push(StatCfg::BitsEveryLength { limbs: 17, boxed: true, int: false, per_len: 512 });
    }
    v.push(StatCfg::RandomEveryLimb { limbs: 1, kind: 5, per: 512 }); // Limb::random
    for limbs in [1usize, 2, 4] {
        v.push(StatCfg::RandomEveryLimb { limbs, kind: 6, per: 512 }); // ConstMontyForm::random, m = 2^BITS - 1
    }
    for kind in 0..5u8 {
        for limbs in [1usize, 2, 3, 4, 8] {
            if tier == Tier::Quick && limbs == 8 && kind > 0 {
                continue;
            }
            v.push(StatCfg::RandomEveryLimb { limbs, kind, per: 512 });
        }
    }
    if tier == Tier::Thorough {
        v.push(StatCfg::RandomEveryLimb { limbs: 16, kind: 0, per: 512 });
        v.push(StatCfg::RandomEveryLimb { limbs: 32, kind: 0, per: 512 });
    }
    v.push(StatCfg::Odd { limbs: 1 });
    v.push(StatCfg::Odd { limbs: 2 });
    v.push(StatCfg::Nz { limbs: 1 });
    v.push(StatCfg::ConstMonty { modulus_id: 1 }); // m = 3, one limb
    for (id, l) in crate::moduli::SMALL_TABLE.iter() {
        // moduli of at least 8 (so that eighths are non-empty) — every shape in the small table
        if *l <= 4 && crate::util::bits(&const_modulus_words(*id)) >= 4 {
            v.push(StatCfg::ConstMontyRange { modulus_id: *id });
        }
    }
    v
}

fn stat_modulus(limbs: usize, t: u64, j: usize, low: u8) -> Vec<u64> {
    let mut m = vec![0u64; limbs];
    m[j] = t;
    for w in m.iter_mut().take(j) {
        *w = match low {
            0 => 0,
            1 => u64::MAX,
            _ => 0x8000_0000_0000_0001,
        };
    }
    if j > 0 && low == 0 {
        m[0] = 1; // keep the modulus from being exactly t * 2^(64 j): top limb ties are then possible
    }
    m
}

fn exec_stat(p: &StatPlan, out: &mut RunOut) {
    // finite budget: 64 x the stream a sampler with acceptance >= 1/2 needs on average
    let tp = TapePlan::uniform(p.seed, p.draws.saturating_mul(64 * 8 * 4));
    let mut tape = Tape::new(&tp);
    let draws = p.draws;
    // cells and expected probabilities
    let (ncells, label): (usize, String);
    let mut probs: Vec<f64>;
    let mut counts: Vec<u64>;
    let mut structural_violation: Option<String> = None;
    let mut starved = false;
    macro_rules! run {
        ($ncells:expr, $probs:expr, $label:expr, $draw:expr) => {{
            ncells = $ncells;
            probs = $probs;
            label = $label;
            counts = vec![0u64; ncells];
            let g = guard(|| {
                for _ in 0..draws {
                    let c: Result<usize, String> = $draw(&mut tape);
                    match c {
                        Ok(c) => counts[c] += 1,
                        Err(e) => {
                            structural_violation = Some(e);
                            break;
                        }
                    }
                }
            });
            match g {
                Guarded::Panic(pi) => structural_violation = Some(format!("panic at {}: {}", pi.location, pi.message)),
                Guarded::Budget => starved = true,
                _ => {}
            }
        }};
    }
    match &p.cfg {
        StatCfg::LimbMod { m } => {
            let m = *m;
            let nz = NonZero::new(Limb(m)).unwrap();
            run!(m as usize, vec![1.0 / m as f64; m as usize], format!("Limb::random_mod m={m}"), |t: &mut Tape| {
                let v = Limb::random_mod(&mut SimRng(t), &nz).0;
                if v >= m { Err(format!("value {v} >= modulus {m}")) } else { Ok(v as usize) }
            });
        }
        StatCfg::LimbModRange { m } => {
            let m = *m;
            let nz = NonZero::new(Limb(m)).unwrap();
            // cell k = [ceil(k m / 8), ceil((k+1) m / 8))
            let bounds: Vec<u128> = (0..=8u128).map(|k| (k * m as u128 + 7) / 8).collect();
            let pr: Vec<f64> = (0..8).map(|k| (bounds[k + 1] - bounds[k]) as f64 / m as f64).collect();
            run!(8usize, pr, format!("Limb::random_mod m={m:#x}"), |t: &mut Tape| {
                let v = Limb::random_mod(&mut SimRng(t), &nz).0;
                if v >= m { Err(format!("value {v:#x} >= modulus {m:#x}")) } else { Ok(bounds[1..].iter().position(|b| (v as u128) < *b).unwrap_or(7)) }
            });
        }
        StatCfg::UintMod { limbs, t, j, low, boxed } => {
            let m = stat_modulus(*limbs, *t, *j, *low);
            let mb = big(&m);
            // cells: top-limb value (0..=t) x top 2 bits of next limb (if j>0)
            let sub = if *j > 0 { 4usize } else { 1 };
            let nc = (*t as usize + 1) * sub;
            let mut pr = vec![0f64; nc];
            // exact cell sizes: count of x < m with x>>(64 j) == a and (x >> (64 j - 2)) & 3 == q
            let mf = mb.to_string().parse::<f64>().unwrap_or(f64::MAX);
            for a in 0..=*t {
                for q in 0..sub as u64 {
                    let lo = (num_bigint::BigUint::from(a) << (64 * *j)) + if *j > 0 { num_bigint::BigUint::from(q) << (64 * *j - 2) } else { 0u32.into() };
                    let hi = if *j > 0 { &lo + (num_bigint::BigUint::from(1u32) << (64 * *j - 2)) } else { &lo + 1u32 };
                    let hi = hi.min(mb.clone());
                    let size = if hi > lo { hi - &lo } else { 0u32.into() };
                    let sf = size.to_string().parse::<f64>().unwrap_or(0.0);
                    pr[(a as usize) * sub + q as usize] = sf / mf;
                }
            }
            let (j, sub_) = (*j, sub);
            if *boxed {
                let nz = NonZero::new(BoxedUint::from_words(m.iter().copied())).unwrap();
                run!(nc, pr, format!("BoxedUint::random_mod limbs={limbs} m={}", hexw(&m)), |t: &mut Tape| {
                    let v = BoxedUint::random_mod(&mut SimRng(t), &nz);
                    let w = v.to_words();
                    if big(&w) >= mb {
                        return Err(format!("value {} >= modulus", hexw(&w)));
                    }
                    for x in 1..j {
                        for y in 0..x {
                            if w[x] == w[y] && w[x] != 0 {
                                return Err(format!("low limbs {} and {} of one draw are equal ({:#018x}): a limb was copied rather than drawn", y, x, w[x]));
                            }
                        }
                    }
                    let a = w[j] as usize;
                    let q = if j > 0 { (w[j - 1] >> 62) as usize } else { 0 };
                    Ok(a * sub_ + q)
                });
            } else {
                with_limbs!(*limbs, N, {
                    let nz = nz_uint::<N>(&m).unwrap();
                    run!(nc, pr, format!("Uint<{}>::random_mod m={}", N, hexw(&m)), |t: &mut Tape| {
                        let v = Uint::<N>::random_mod(&mut SimRng(t), &nz);
                        let w = v.to_words();
                        if big(&w) >= mb {
                            return Err(format!("value {} >= modulus", hexw(&w)));
                        }
                        for x in 1..j {
                        for y in 0..x {
                            if w[x] == w[y] && w[x] != 0 {
                                return Err(format!("low limbs {} and {} of one draw are equal ({:#018x}): a limb was copied rather than drawn", y, x, w[x]));
                            }
                        }
                    }
                    let a = w[j] as usize;
                        let q = if j > 0 { (w[j - 1] >> 62) as usize } else { 0 };
                        Ok(a * sub_ + q)
                    });
                }, else { return });
            }
        }
        StatCfg::Bits { limbs, b, boxed } => {
            let b = *b;
            let nc = if b <= 10 { 1usize << b } else { 256 };
            let cell = move |w: &[u64]| -> Result<usize, String> {
                if bits(w) > b {
                    return Err(format!("value {} has more than {} bits", hexw(w), b));
                }
                if b <= 10 {
                    Ok(w[0] as usize)
                } else {
                    // top 4 bits (bits b-4..b) x bottom 4 bits
                    let topv = {
                        let lo = b - 4;
                        let wi = (lo / 64) as usize;
                        let sh = lo % 64;
                        let mut x = w[wi] >> sh;
                        if sh > 60 && wi + 1 < w.len() {
                            x |= w[wi + 1] << (64 - sh);
                        }
                        (x & 0xf) as usize
                    };
                    Ok(topv * 16 + (w[0] & 0xf) as usize)
                }
            };
            let pr = vec![1.0 / nc as f64; nc];
            if *boxed {
                let prec = 64 * *limbs as u32;
                run!(nc, pr, format!("BoxedUint::random_bits_with_precision b={b} prec={prec}"), |t: &mut Tape| {
                    let v = BoxedUint::random_bits_with_precision(&mut SimRng(t), b, prec);
                    cell(&v.to_words())
                });
            } else {
                with_limbs!(*limbs, N, {
                    run!(nc, pr, format!("Uint<{}>::random_bits b={b}", N), |t: &mut Tape| {
                        let v = Uint::<N>::random_bits(&mut SimRng(t), b);
                        cell(&v.to_words())
                    });
                }, else { return });
            }
        }
        StatCfg::BitsEveryLength { limbs, boxed, int, per_len } => {
            // not a chi-square: an exact "both values of a bit are produced" check at every bit length
            let q = Plan {
                api: if *boxed { Api::BoxedRandomBitsPrec } else if *int { Api::IntRandomBits } else { Api::UintRandomBits },
                limbs: *limbs,
                front: Front::Infallible,
                modulus: vec![],
                bit_length: 0,
                precision: 64 * *limbs as u32,
                modulus_id: 0,
                tape: TapePlan::default(),
                compare_boxed: false,
                enumerate_failures: false,
                healthy_from: None,
                recover: false,
                twice: false,
            };
            let cfgsig = format!("{:?}", p.cfg).replace(' ', "");
            let mut checked = 0u64;
            for b in 1..=64 * *limbs as u32 {
                let mut qq = q.clone();
                qq.bit_length = b;
                // every requested bit must come out both 0 and 1 within `per_len` draws: OR / AND accumulators
                let nl = *limbs;
                let mut or_acc = vec![0u64; nl];
                let mut and_acc = vec![u64::MAX; nl];
                for _ in 0..*per_len {
                    match call(&qq, qq.api, &mut tape) {
                        Res::Val { words, .. } => {
                            if bits(&words) > b {
                                out.viol("C19/range", format!("stat:{}", cfgsig), format!("random_bits({b}) returned {} with {} bits", hexw(&words), bits(&words)), None);
                                return;
                            }
                            for i in 0..nl {
                                let w = words.get(i).copied().unwrap_or(0);
                                or_acc[i] |= w;
                                and_acc[i] &= w;
                            }
                            checked += 1;
                        }
                        other => {
                            out.viol("C19/error-spurious", format!("stat:{}", cfgsig), format!("random_bits({b}) on a healthy stream returned {}", other.kind()), None);
                            return;
                        }
                    }
                }
                for bit in 0..b {
                    let (i, k) = ((bit / 64) as usize, bit % 64);
                    let never1 = (or_acc[i] >> k) & 1 == 0;
                    let never0 = (and_acc[i] >> k) & 1 == 1;
                    if never1 || never0 {
                        out.viol(
                            "C19/never-produced",
                            format!("stat:{}", cfgsig),
                            format!("random_bits(bit_length={b}): bit {bit} was {} in all {} draws from a uniform stream", if never0 { "1" } else { "0" }, per_len),
                            None,
                        );
                        return;
                    }
                }
            }
            out.ev(&format!("stat/bits-every-length/{}/{}", cfgsig, checked));
            out.add("stat:draws", checked);
            out.count("probe:uniformity-tests");
            out.count("probe:every-bit-length-bit-frequency-checked");
            out.state(format!("stat|{}", cfgsig));
            out.sample = Some(json!({"config": cfgsig, "draws": checked, "check": "each of the top two and the lowest requested bit takes both values at every bit length"}));
            return;
        }
        StatCfg::RandomEveryLimb { limbs, kind, per } => {
            let api = match kind {
                0 => Api::UintRandom,
                1 => Api::IntRandom,
                2 => Api::WrappingUint,
                3 => Api::NzUint,
                5 => Api::LimbRandom,
                6 => Api::ConstMonty,
                _ => Api::OddUint,
            };
            // kind 6: ConstMontyForm::random for the all-ones table modulus of that width (every bit of the value varies)
            let mid = if *kind == 6 {
                crate::moduli::SMALL_TABLE.iter().map(|(i, _)| *i).find(|i| {
                    let m = const_modulus_words(*i);
                    m.len() == *limbs && m.iter().all(|w| *w == u64::MAX)
                })
            } else {
                Some(0)
            };
            let Some(mid) = mid else { return };
            let q = Plan {
                api,
                limbs: *limbs,
                front: Front::Infallible,
                modulus: vec![],
                bit_length: 0,
                precision: 64 * *limbs as u32,
                modulus_id: mid,
                tape: TapePlan::default(),
                compare_boxed: false,
                enumerate_failures: false,
                healthy_from: None,
                recover: false,
                twice: false,
            };
            let cfgsig = format!("{:?}", p.cfg).replace(' ', "");
            let nl = *limbs;
            let mut or_acc = vec![0u64; nl];
            let mut and_acc = vec![u64::MAX; nl];
            // same-position correlation between limbs: every bit of w_i XOR w_j must take both values too
            let mut xor_or = vec![0u64; nl * nl];
            let mut xor_and = vec![u64::MAX; nl * nl];
            let mut n = 0u64;
            for _ in 0..*per {
                match call(&q, api, &mut tape) {
                    Res::Val { words, .. } if words.len() == nl => {
                        for i in 0..nl {
                            for j in 0..i {
                                xor_or[i * nl + j] |= words[i] ^ words[j];
                                xor_and[i * nl + j] &= words[i] ^ words[j];
                            }
                        }
                        for i in 0..nl {
                            or_acc[i] |= words[i];
                            and_acc[i] &= words[i];
                            // two limbs of one draw being equal has probability 2^-64: a copied / repeated limb
                            for j in 0..i {
                                if words[i] == words[j] {
                                    out.viol(
                                        "C19/bias",
                                        format!("stat:{}", cfgsig),
                                        format!("{:?} (limbs={}): limbs {} and {} of one draw are equal ({:#018x}) — a limb was copied rather than drawn", api, nl, j, i, words[i]),
                                        None,
                                    );
                                    return;
                                }
                            }
                        }
                        n += 1;
                    }
                    other => {
                        out.viol("C19/error-spurious", format!("stat:{}", cfgsig), format!("{:?} on a healthy stream returned {}", api, other.kind()), None);
                        return;
                    }
                }
            }
            for i in 0..nl {
                for b in 0..64u32 {
                    if *kind == 4 && i == 0 && b == 0 {
                        continue; // the forced low bit of an Odd
                    }
                    let never1 = (or_acc[i] >> b) & 1 == 0;
                    let never0 = (and_acc[i] >> b) & 1 == 1;
                    if never1 || never0 {
                        out.viol(
                            "C19/never-produced",
                            format!("stat:{}", cfgsig),
                            format!("{:?} (limbs={}): bit {} of limb {} was {} in all {} draws from a uniform stream", api, nl, b, i, if never0 { "1" } else { "0" }, per),
                            None,
                        );
                        return;
                    }
                }
            }
            for i in 0..nl {
                for j in 0..i {
                    let (o, a) = (xor_or[i * nl + j], xor_and[i * nl + j]);
                    let stuck = !o | a; // bits of the XOR that never were 1, or never were 0
                    let stuck = if *kind == 4 && j == 0 { stuck & !0 } else { stuck };
                    if stuck != 0 {
                        let b = stuck.trailing_zeros();
                        out.viol(
                            "C19/bias",
                            format!("stat:{}", cfgsig),
                            format!("{:?} (limbs={}): bit {} of limb {} and of limb {} were always {} in {} draws — the limbs are correlated", api, nl, b, j, i, if (a >> b) & 1 == 1 { "different" } else { "equal" }, per),
                            None,
                        );
                        return;
                    }
                }
            }
            out.ev(&format!("stat/random-every-limb/{}/{}", cfgsig, n));
            out.add("stat:draws", n);
            out.count("probe:uniformity-tests");
            out.count("probe:every-limb-bit-frequency-checked");
            out.state(format!("stat|{}", cfgsig));
            out.sample = Some(json!({"config": cfgsig, "draws": n, "check": "bits 0,31,32,63 of every limb take both values"}));
            return;
        }
        StatCfg::Odd { limbs } => {
            with_limbs!(*limbs, N, {
                run!(256, vec![1.0 / 256.0; 256], format!("Odd<Uint<{}>>::random", N), |t: &mut Tape| {
                    let v = Odd::<Uint<N>>::random(&mut SimRng(t)).get().to_words();
                    if v[0] & 1 == 0 {
                        return Err("even value".into());
                    }
                    Ok(((v[0] >> 1) & 0xff) as usize)
                });
            }, else { return });
        }
        StatCfg::Nz { limbs } => {
            with_limbs!(*limbs, N, {
                run!(256, vec![1.0 / 256.0; 256], format!("NonZero<Uint<{}>>::random", N), |t: &mut Tape| {
                    let v = NonZero::<Uint<N>>::random(&mut SimRng(t)).get().to_words();
                    if is_zero(&v) {
                        return Err("zero value".into());
                    }
                    Ok((v[0] & 0xff) as usize)
                });
            }, else { return });
        }
        StatCfg::ConstMontyRange { modulus_id } => {
            let m = const_modulus_words(*modulus_id);
            let mb = big(&m);
            let q = Plan {
                api: Api::ConstMonty,
                limbs: m.len(),
                front: Front::Infallible,
                modulus: vec![],
                bit_length: 0,
                precision: 0,
                modulus_id: *modulus_id,
                tape: TapePlan::default(),
                compare_boxed: false,
                enumerate_failures: false,
                healthy_from: None,
                recover: false,
                twice: false,
            };
            // cell k = [ceil(k m / 8), ceil((k+1) m / 8))
            let bounds: Vec<num_bigint::BigUint> = (0..=8u32).map(|k| (&mb * k + 7u32) / 8u32).collect();
            let mf = mb.to_string().parse::<f64>().unwrap_or(f64::MAX);
            let pr: Vec<f64> = (0..8).map(|k| (&bounds[k + 1] - &bounds[k]).to_string().parse::<f64>().unwrap_or(0.0) / mf).collect();
            let draws_here = draws.min(200_000);
            let saved = draws;
            let _ = saved;
            ncells = 8;
            probs = pr;
            label = format!("ConstMontyForm::random modulus_id={modulus_id} m={}", hexw(&m));
            counts = vec![0u64; 8];
            let g = guard(|| {
                for _ in 0..draws_here {
                    match call(&q, Api::ConstMonty, &mut tape) {
                        Res::Val { words, .. } => {
                            let v = big(&words);
                            if v >= mb {
                                structural_violation = Some(format!("value {} >= modulus", hexw(&words)));
                                break;
                            }
                            let k = bounds[1..].iter().position(|b| v < *b).unwrap_or(7);
                            counts[k] += 1;
                        }
                        other => {
                            structural_violation = Some(format!("{:?}", other.kind()));
                            break;
                        }
                    }
                }
            });
            match g {
                Guarded::Panic(pi) => structural_violation = Some(format!("panic at {}: {}", pi.location, pi.message)),
                Guarded::Budget => starved = true,
                _ => {}
            }
        }
        StatCfg::ConstMonty { modulus_id } => {
            let m = const_modulus_words(*modulus_id);
            let mv = m[0] as usize;
            let q = Plan {
                api: Api::ConstMonty,
                limbs: m.len(),
                front: Front::Infallible,
                modulus: vec![],
                bit_length: 0,
                precision: 0,
                modulus_id: *modulus_id,
                tape: TapePlan::default(),
                compare_boxed: false,
                enumerate_failures: false,
                healthy_from: None,
                recover: false,
                twice: false,
            };
            run!(mv, vec![1.0 / mv as f64; mv], format!("ConstMontyForm::random modulus_id={modulus_id} m={mv}"), |t: &mut Tape| {
                match call(&q, Api::ConstMonty, t) {
                    Res::Val { words, .. } if (words[0] as usize) < mv && words[1..].iter().all(|&w| w == 0) => Ok(words[0] as usize),
                    other => Err(format!("{:?}", other)),
                }
            });
        }
    }
    let _ = pow2;
    let _ = util::is_zero;
    let total: u64 = counts.iter().sum();
    out.ev(&format!("stat/{}/{}", label, total));
    for c in &counts {
        out.digest.u64(*c);
    }
    out.add("stat:draws", total);
    let cfgsig = format!("{:?}", p.cfg).replace(' ', "");
    if let Some(e) = structural_violation {
        out.viol("C19/range", format!("stat:{}", cfgsig), format!("{label}: {e}"), None);
        return;
    }
    if starved {
        out.viol(
            "C11/non-termination",
            format!("stat:{}", cfgsig),
            format!("{label}: sampler consumed {} bytes of uniform stream for {} of {} draws (64x the expected need) without finishing", tape.bytes, total, draws),
            None,
        );
        return;
    }
    // Pearson chi-square over cells with non-negligible expectation; cells with expectation < 5 are pooled.
    let mut chi2 = 0.0;
    let mut dof = 0usize;
    let mut pooled_e = 0.0;
    let mut pooled_o = 0.0;
    let mut never = Vec::new();
    for (i, (&c, &pr)) in counts.iter().zip(probs.iter()).enumerate() {
        let e = pr * total as f64;
        if pr == 0.0 {
            if c > 0 {
                out.viol("C19/range", format!("stat:{}", cfgsig), format!("{label}: inadmissible cell {i} produced {c} times"), None);
            }
            continue;
        }
        if e < 5.0 {
            pooled_e += e;
            pooled_o += c as f64;
            continue;
        }
        if c == 0 && e >= 40.0 {
            never.push(i);
        }
        chi2 += (c as f64 - e) * (c as f64 - e) / e;
        dof += 1;
    }
    if pooled_e >= 5.0 {
        chi2 += (pooled_o - pooled_e) * (pooled_o - pooled_e) / pooled_e;
        dof += 1;
    }
    let dof = dof.saturating_sub(1);
    let pval = if dof == 0 { 1.0 } else { chi2_sf(chi2, dof as f64) };
    out.state(format!("stat|{}|cells={}|p>={}", cfgsig, ncells, if pval > 0.01 { "1e-2" } else if pval > 1e-6 { "1e-6" } else { "tiny" }));
    out.count("probe:uniformity-tests");
    if !never.is_empty() {
        // e >= 40: P(empty) <= exp(-40) ~ 4e-18
        out.viol(
            "C19/never-produced",
            format!("stat:{}", cfgsig),
            format!("{label}: admissible cells never produced in {total} draws: {:?}", &never[..never.len().min(8)]),
            None,
        );
    } else if pval < 1e-12 {
        out.viol(
            "C19/bias",
            format!("stat:{}", cfgsig),
            format!("{label}: chi2={:.1} dof={} p={:.3e} over {} draws (bound 1e-12)", chi2, dof, pval, total),
            None,
        );
    }
    out.sample = Some(json!({"config": label, "draws": total, "cells": ncells, "chi2": chi2, "dof": dof, "p_value": pval}));
}

impl TypedScenario for Stat {
    type Plan = StatPlan;
    fn name(&self) -> &'static str {
        "c19-stat"
    }
    fn n_runs(&self, tier: Tier) -> u64 {
        stat_configs(tier).len() as u64
    }
    fn generate(&self, seed: u64, tier: Tier, i: u64) -> StatPlan {
        let cfgs = stat_configs(tier);
        StatPlan {
            cfg: cfgs[i as usize].clone(),
            seed: mix(seed, 0x1905, i),
            draws: match tier {
                Tier::Quick => 1_000_000,
                Tier::Thorough => 30_000_000,
            },
        }
    }
    fn exec(&self, plan: &StatPlan, out: &mut RunOut) {
        exec_stat(plan, out);
    }
    fn chunk(&self) -> u64 {
        1
    }
}
