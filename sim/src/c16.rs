//! C16 (scoped) — conversions through the serde and text-sink seams.
//!
//! Scenario `c16-persist`: serialize(x) -> simulated medium (token / byte faults) -> deserialize,
//! through the simulator's own serde format (binary and human-readable, three delivery styles),
//! bincode and serde_json. Scenario `c16-print`: fmt traits into a capacity-limited sink.

use crate::core::{RunOut, Tier, TypedScenario};
use crate::dev::medium::{Fault, hex};
use crate::dev::serde_fmt::{Delivery, SimDe, SimSerdeError, Tok, to_tokens};
use crate::dev::sink::SimSink;
use crate::monitor::{Guarded, guard};
use crate::prng::{Xoshiro, mix};
use crate::util::{big, hexw};
use crate::with_limbs;
use crypto_bigint::modular::ConstMontyForm;
use crypto_bigint::{BoxedUint, Checked, Encoding, Int, Limb, NonZero, Odd, Uint, Wrapping};
use serde::de::DeserializeOwned;
use serde::{Deserialize, Serialize};
use serde_json::Value;
use std::fmt::{Debug, Write as _};

pub const SERDE_LIMBS: [usize; 10] = [1, 2, 3, 4, 5, 6, 7, 8, 16, 32];
pub const SERDE_LIMBS_QUICK: [usize; 6] = [1, 2, 3, 4, 8, 16];

#[derive(Clone, Copy, Debug, Serialize, Deserialize, PartialEq, Eq)]
pub enum Ty {
    Limb,
    Uint,
    WrappingUint,
    /// bool: the Checked value is "none"
    CheckedUint(bool),
    NzUint,
    OddUint,
    NzLimb,
    ConstMonty(usize),
}

#[derive(Clone, Copy, Debug, Serialize, Deserialize, PartialEq, Eq)]
pub enum Format {
    SimBin,
    SimHuman,
    Bincode,
    Json,
}

#[derive(Clone, Debug, Serialize, Deserialize, PartialEq, Eq)]
pub enum TokFault {
    /// storage fault on the payload of the first Bytes/Str token (or on the raw record for bincode/json)
    Payload(Fault),
    /// type confusion: the byte string comes back as a hex string / the string as raw bytes
    AsStr,
    AsBytes,
    DropTok(usize),
    /// Some <-> None
    FlipOption,
    U64Xor(u64),
    /// hex digits in upper case — not a fault: must decode to the same value
    UpperCase,
}

impl TokFault {
    fn kind(&self) -> String {
        match self {
            TokFault::Payload(f) => format!("payload-{}", f.kind()),
            TokFault::AsStr => "type-confusion-bytes-as-str".into(),
            TokFault::AsBytes => "type-confusion-str-as-bytes".into(),
            TokFault::DropTok(_) => "drop-token".into(),
            TokFault::FlipOption => "flip-option".into(),
            TokFault::U64Xor(_) => "u64-bitflip".into(),
            TokFault::UpperCase => "upper-case".into(),
        }
    }
}

#[derive(Clone, Debug, Serialize, Deserialize)]
pub struct Persist {
    pub ty: Ty,
    pub limbs: usize,
    pub words: Vec<u64>,
    pub format: Format,
    pub bytes_style: Delivery,
    pub str_style: Delivery,
    #[serde(default)]
    pub faults: Vec<TokFault>,
    #[serde(default)]
    pub de_fail_at: Option<usize>,
    #[serde(default)]
    pub ser_fail_at: Option<usize>,
    /// enumerate every truncation offset of the payload (in addition to `faults`)
    #[serde(default)]
    pub truncate_all: bool,
}

fn ty_name(t: Ty) -> String {
    match t {
        Ty::Limb => "Limb".into(),
        Ty::Uint => "Uint".into(),
        Ty::WrappingUint => "Wrapping<Uint>".into(),
        Ty::CheckedUint(n) => format!("Checked<Uint>({})", if n { "none" } else { "some" }),
        Ty::NzUint => "NonZero<Uint>".into(),
        Ty::OddUint => "Odd<Uint>".into(),
        Ty::NzLimb => "NonZero<Limb>".into(),
        Ty::ConstMonty(_) => "ConstMontyForm".into(),
    }
}

fn tok_eq_ci(a: &[Tok], b: &[Tok]) -> bool {
    a.len() == b.len()
        && a.iter().zip(b).all(|(x, y)| match (x, y) {
            (Tok::Str(s), Tok::Str(t)) => s.eq_ignore_ascii_case(t),
            _ => x == y,
        })
}

fn ascii_fault(s: &str, f: &Fault) -> (String, bool) {
    let mut b = s.as_bytes().to_vec();
    let fired = f.apply(&mut b);
    for x in b.iter_mut() {
        *x &= 0x7f;
    }
    (String::from_utf8(b).unwrap_or_default(), fired)
}

fn apply_tok_faults(toks: &mut Vec<Tok>, faults: &[TokFault], out: &mut RunOut) -> (u32, bool, String) {
    let mut fired = 0;
    let mut kinds: Vec<String> = Vec::new();
    let mut only_case = true;
    for f in faults {
        let did = match f {
            TokFault::Payload(mf) => {
                let mut did = false;
                for t in toks.iter_mut() {
                    match t {
                        Tok::Bytes(b) => {
                            did = mf.apply(b);
                            break;
                        }
                        Tok::Str(s) => {
                            let (n, d) = ascii_fault(s, mf);
                            *s = n;
                            did = d;
                            break;
                        }
                        _ => {}
                    }
                }
                did
            }
            TokFault::AsStr => {
                let mut did = false;
                for t in toks.iter_mut() {
                    if let Tok::Bytes(b) = t {
                        *t = Tok::Str(hex(b));
                        did = true;
                        break;
                    }
                }
                did
            }
            TokFault::AsBytes => {
                let mut did = false;
                for t in toks.iter_mut() {
                    if let Tok::Str(s) = t {
                        *t = Tok::Bytes(crate::dev::medium::unhex(s).unwrap_or_else(|| s.as_bytes().to_vec()));
                        did = true;
                        break;
                    }
                }
                did
            }
            TokFault::DropTok(i) => {
                if *i < toks.len() {
                    toks.remove(*i);
                    true
                } else {
                    false
                }
            }
            TokFault::FlipOption => match toks.first() {
                Some(Tok::None) => {
                    toks[0] = Tok::Some;
                    true
                }
                Some(Tok::Some) => {
                    toks.truncate(0);
                    toks.push(Tok::None);
                    true
                }
                _ => false,
            },
            TokFault::U64Xor(m) => {
                let mut did = false;
                for t in toks.iter_mut() {
                    if let Tok::U64(v) = t {
                        *v ^= *m;
                        did = *m != 0;
                        break;
                    }
                }
                did
            }
            TokFault::UpperCase => {
                let mut did = false;
                for t in toks.iter_mut() {
                    if let Tok::Str(s) = t {
                        let u = s.to_ascii_uppercase();
                        did = u != *s;
                        *s = u;
                        break;
                    }
                }
                did
            }
        };
        if did {
            fired += 1;
            if !kinds.contains(&f.kind()) {
                kinds.push(f.kind());
            }
            out.count(&format!("fault:serde-{}", f.kind()));
            if !matches!(f, TokFault::UpperCase) {
                only_case = false;
            }
        }
    }
    kinds.sort();
    (fired, only_case, kinds.join("+"))
}

fn sim_deserialize<T: DeserializeOwned>(toks: &[Tok], p: &Persist, human: bool) -> (Guarded<Result<T, SimSerdeError>>, usize, bool, bool) {
    let mut de = SimDe::new(toks, human, p.bytes_style, p.str_style, p.de_fail_at);
    let g = guard(|| T::deserialize(&mut de));
    (g, de.pos, de.fault_fired, de.hit_eof)
}

fn plan_json(p: &Persist) -> Option<Value> {
    serde_json::to_value(p).ok()
}

/// The generic persist/restore run for one value.
fn persist<T: Serialize + DeserializeOwned + PartialEq + Debug>(x: &T, p: &Persist, bytes: Option<usize>, out: &mut RunOut) {
    let tyn = ty_name(p.ty);
    let sig = |extra: &str| format!("{}:{:?}:{}", tyn, p.format, extra);
    match p.format {
        Format::SimBin | Format::SimHuman => {
            let human = p.format == Format::SimHuman;
            // --- serializer seam
            let gs = guard(|| to_tokens(x, human, p.ser_fail_at));
            let (r, ser) = match gs {
                Guarded::Done(v) => v,
                Guarded::Panic(pi) => {
                    out.viol("C11/unexpected-panic", format!("serialize:{}:{}", tyn, pi.location), format!("serialize unwound at {}: {}", pi.location, pi.message), plan_json(p));
                    return;
                }
                Guarded::Budget => return,
            };
            out.ev(&format!("ser/{}/{:?}/{}/{}", tyn, p.format, ser.toks.len(), r.is_ok()));
            if ser.fault_fired {
                out.count("fault:serializer-error-at-call");
                if r.is_ok() {
                    out.viol("C16/serde-error-swallowed", sig("serialize"), "the serializer refused a call but serialize returned Ok".into(), plan_json(p));
                }
                return;
            }
            if let Err(e) = &r {
                out.viol("C16/serde-roundtrip", sig("serialize-failed"), format!("serialize failed without an injected fault: {e}"), plan_json(p));
                return;
            }
            // --- oracle 4: size, and human = hex of binary
            let (_, bin) = to_tokens(x, false, None);
            let (_, hum) = to_tokens(x, true, None);
            // the human-readable form of a byte payload is a hex string of twice its length (which byte order the
            // two forms use is not pinned — the property only asks that each form is its own inverse)
            let shape_ok = bin.toks.len() == hum.toks.len()
                && bin.toks.iter().zip(&hum.toks).all(|(b, h)| match (b, h) {
                    (Tok::Bytes(x), Tok::Str(y)) => y.len() == 2 * x.len() && y.bytes().all(|c| c.is_ascii_hexdigit()),
                    (x, y) => x == y,
                });
            if !shape_ok {
                out.viol("C16/size", sig("human-vs-binary"), format!("human-readable tokens {:?} do not have the shape of the binary tokens {:?} (hex string of twice the length)", hum.toks, bin.toks), plan_json(p));
            }
            if let Some(n) = bytes {
                let ok = bin.toks.iter().any(|t| matches!(t, Tok::Bytes(b) if b.len() == n)) || matches!(p.ty, Ty::CheckedUint(true));
                if !ok {
                    out.viol("C16/size", sig("binary-length"), format!("binary payload is not {} bytes: {:?}", n, bin.toks), plan_json(p));
                }
            }
            // --- medium
            let mut variants: Vec<(Vec<Tok>, u32, bool, String)> = Vec::new();
            {
                let mut toks = ser.toks.clone();
                let (fired, only_case, kinds) = apply_tok_faults(&mut toks, &p.faults, out);
                variants.push((toks, fired, only_case, kinds));
            }
            if p.truncate_all {
                let plen = ser.toks.iter().find_map(|t| match t {
                    Tok::Bytes(b) => Some(b.len()),
                    Tok::Str(s) => Some(s.len()),
                    _ => None,
                });
                for k in 0..plen.unwrap_or(0) {
                    let mut toks = ser.toks.clone();
                    let (fired, _, _) = apply_tok_faults(&mut toks, &[TokFault::Payload(Fault::Truncate(k))], out);
                    variants.push((toks, fired, false, "payload-truncate".into()));
                }
                out.count("probe:all-payload-truncations-enumerated");
            }
            for (toks, fired, only_case, kinds) in variants {
                let (g, pos, de_fault, _eof) = sim_deserialize::<T>(&toks, p, human);
                let res = match g {
                    Guarded::Done(r) => r,
                    Guarded::Panic(pi) => {
                        out.viol("C11/unexpected-panic", format!("deserialize:{}:{}", tyn, pi.location), format!("deserialize unwound at {}: {}", pi.location, pi.message), plan_json(p));
                        continue;
                    }
                    Guarded::Budget => continue,
                };
                out.ev(&format!("de/{}/{}/{}", tyn, kinds, res.is_ok()));
                out.state(format!("persist|{}|{:?}|{:?}/{:?}|{}|{}", tyn, p.format, p.bytes_style, p.str_style, if kinds.is_empty() { "fault-free" } else { &kinds }, if res.is_ok() { "ok" } else { "err" }));
                if de_fault {
                    out.count("fault:deserializer-error-at-call");
                    if res.is_ok() {
                        out.viol("C16/serde-error-swallowed", sig("deserialize"), "the deserializer returned an error at an entry point but deserialize returned Ok".into(), plan_json(p));
                    }
                    continue;
                }
                if fired == 0 || only_case {
                    // oracle 1: inverse
                    match &res {
                        Ok(v) if v == x => out.count("probe:fault-free-round-trip"),
                        Ok(v) => out.viol(
                            "C16/serde-roundtrip",
                            sig(&format!("{:?}/{:?}{}", p.bytes_style, p.str_style, if only_case && fired > 0 { ":upper-case" } else { "" })),
                            format!("deserialize(serialize({:?})) = {:?}", x, v),
                            plan_json(p),
                        ),
                        Err(e) => out.viol(
                            "C16/serde-roundtrip",
                            sig(&format!("{:?}/{:?}{}", p.bytes_style, p.str_style, if only_case && fired > 0 { ":upper-case" } else { "" })),
                            format!("deserialize(serialize({:?})) failed: {}", x, e),
                            plan_json(p),
                        ),
                    }
                    continue;
                }
                // oracle 2: strict and lossless under faults
                if let Ok(v) = &res {
                    let (_, re) = to_tokens(v, human, None);
                    let consumed = &toks[..pos.min(toks.len())];
                    if !tok_eq_ci(&re.toks, consumed) {
                        let mut q = p.clone();
                        q.truncate_all = false;
                        if kinds == "payload-truncate" && p.truncate_all {
                            // narrow the replay to this single truncation
                            let k = toks.iter().find_map(|t| match t {
                                Tok::Bytes(b) => Some(b.len()),
                                Tok::Str(s) => Some(s.len()),
                                _ => None,
                            });
                            q.faults = vec![TokFault::Payload(Fault::Truncate(k.unwrap_or(0)))];
                        }
                        out.viol(
                            "C16/serde-not-strict",
                            sig(&kinds),
                            format!("faulted record {:?} was accepted as {:?}, which serializes as {:?}", consumed, v, re.toks),
                            plan_json(&q),
                        );
                    } else {
                        out.count("probe:faulted-record-is-another-valid-record");
                    }
                } else {
                    out.count("probe:faulted-record-rejected");
                }
            }
        }
        Format::Bincode => {
            let g = guard(|| bincode::serialize(x));
            let Guarded::Done(Ok(mut rec)) = g else {
                out.viol("C16/serde-roundtrip", sig("serialize-failed"), "bincode serialize failed or unwound".into(), plan_json(p));
                return;
            };
            let mut fired = 0;
            for f in &p.faults {
                if let TokFault::Payload(mf) = f {
                    if mf.apply(&mut rec) {
                        fired += 1;
                        out.count(&format!("fault:serde-payload-{}", mf.kind()));
                    }
                }
            }
            let g = guard(|| bincode::deserialize::<T>(&rec));
            let res = match g {
                Guarded::Done(r) => r,
                Guarded::Panic(pi) => {
                    out.viol("C11/unexpected-panic", format!("deserialize:{}:{}", tyn, pi.location), format!("bincode deserialize unwound at {}: {}", pi.location, pi.message), plan_json(p));
                    return;
                }
                Guarded::Budget => return,
            };
            out.ev(&format!("bincode/{}/{}/{}", tyn, fired, res.is_ok()));
            out.state(format!("persist|{}|Bincode|{}|{}", tyn, if fired == 0 { "fault-free" } else { "faulted" }, if res.is_ok() { "ok" } else { "err" }));
            match (fired, res) {
                (0, Ok(v)) if &v == x => out.count("probe:fault-free-round-trip"),
                (0, Ok(v)) => out.viol("C16/serde-roundtrip", sig("bincode"), format!("deserialize(serialize({:?})) = {:?}", x, v), plan_json(p)),
                (0, Err(e)) => out.viol("C16/serde-roundtrip", sig("bincode"), format!("deserialize(serialize({:?})) failed: {}", x, e), plan_json(p)),
                (_, Ok(v)) => {
                    // bincode::deserialize ignores trailing bytes (framing): the re-encoding must be a prefix
                    let re = bincode::serialize(&v).unwrap_or_default();
                    if !rec.starts_with(&re) {
                        out.viol(
                            "C16/serde-not-strict",
                            sig(&p.faults.iter().map(|f| f.kind()).collect::<Vec<_>>().join("+")),
                            format!("faulted record {} was accepted as {:?}, which serializes as {}", hex(&rec), v, hex(&re)),
                            plan_json(p),
                        );
                    }
                }
                _ => out.count("probe:faulted-record-rejected"),
            }
        }
        Format::Json => {
            let g = guard(|| serde_json::to_string(x));
            let Guarded::Done(Ok(rec)) = g else {
                out.viol("C16/serde-roundtrip", sig("serialize-failed"), "serde_json serialize failed or unwound".into(), plan_json(p));
                return;
            };
            let mut rec = rec;
            let mut fired = 0;
            let mut only_case = true;
            for f in &p.faults {
                match f {
                    TokFault::Payload(mf) => {
                        let (n, d) = ascii_fault(&rec, mf);
                        if d {
                            rec = n;
                            fired += 1;
                            only_case = false;
                            out.count(&format!("fault:serde-payload-{}", mf.kind()));
                        }
                    }
                    TokFault::UpperCase => {
                        let u = rec.to_ascii_uppercase();
                        if u != rec && !rec.contains("null") {
                            rec = u;
                            fired += 1;
                        }
                    }
                    _ => {}
                }
            }
            let g = guard(|| serde_json::from_str::<T>(&rec));
            let res = match g {
                Guarded::Done(r) => r,
                Guarded::Panic(pi) => {
                    out.viol("C11/unexpected-panic", format!("deserialize:{}:{}", tyn, pi.location), format!("serde_json deserialize unwound at {}: {}", pi.location, pi.message), plan_json(p));
                    return;
                }
                Guarded::Budget => return,
            };
            out.ev(&format!("json/{}/{}/{}", tyn, fired, res.is_ok()));
            out.state(format!("persist|{}|Json|{}|{}", tyn, if fired == 0 { "fault-free" } else { "faulted" }, if res.is_ok() { "ok" } else { "err" }));
            let fold = |v: Value| -> Value {
                match v {
                    Value::String(s) => Value::String(s.to_ascii_lowercase()),
                    o => o,
                }
            };
            match (fired == 0 || only_case, res) {
                (true, Ok(v)) if &v == x => out.count("probe:fault-free-round-trip"),
                (true, Ok(v)) => out.viol("C16/serde-roundtrip", sig("json"), format!("deserialize(serialize({:?})) = {:?}", x, v), plan_json(p)),
                (true, Err(e)) => out.viol("C16/serde-roundtrip", sig("json"), format!("deserialize({}) failed: {}", rec, e), plan_json(p)),
                (false, Ok(v)) => {
                    let re = serde_json::to_value(&v).map(fold).ok();
                    let faulted = serde_json::from_str::<Value>(&rec).map(fold).ok();
                    if re != faulted {
                        out.viol(
                            "C16/serde-not-strict",
                            sig(&p.faults.iter().map(|f| f.kind()).collect::<Vec<_>>().join("+")),
                            format!("faulted record {} was accepted as {:?}, which serializes as {:?}", rec, v, re),
                            plan_json(p),
                        );
                    }
                }
                _ => out.count("probe:faulted-record-rejected"),
            }
        }
    }
}

/// Oracle 3: the documented byte-order routes that feed the serializers are positional.
fn positional<const N: usize>(x: &Uint<N>, p: &Persist, out: &mut RunOut)
where
    Uint<N>: Encoding,
{
    let w = x.to_words();
    let v = big(&w);
    let mut le = v.to_bytes_le();
    le.resize(8 * N, 0);
    let mut be = le.clone();
    be.reverse();
    let got_le = Encoding::to_le_bytes(x);
    let got_be = Encoding::to_be_bytes(x);
    if got_le.as_ref() != &le[..] {
        out.viol("C16/positional", "Encoding::to_le_bytes:le".into(), format!("to_le_bytes({}) = {}", hexw(&w), hex(got_le.as_ref())), plan_json(p));
    }
    if got_be.as_ref() != &be[..] {
        out.viol("C16/positional", "Encoding::to_be_bytes:be".into(), format!("to_be_bytes({}) = {}", hexw(&w), hex(got_be.as_ref())), plan_json(p));
    }
    if Uint::<N>::from_le_bytes(got_le) != *x || Uint::<N>::from_le_slice(&le) != *x {
        out.viol("C16/positional", "from_le_bytes:le".into(), format!("from_le_bytes(to_le_bytes({})) differs", hexw(&w)), plan_json(p));
    }
    if Uint::<N>::from_be_bytes(got_be) != *x || Uint::<N>::from_be_slice(&be) != *x {
        out.viol("C16/positional", "from_be_bytes:be".into(), format!("from_be_bytes(to_be_bytes({})) differs", hexw(&w)), plan_json(p));
    }
    out.count("probe:positional-checked");
}

/// Oracle 3 for the hybrid-array route (the one the DER codec uses): `ArrayEncoding::{to,from}_{be,le}_byte_array`.
fn array_positional(words: &[u64], p: &Persist, out: &mut RunOut) {
    use crypto_bigint::ArrayEncoding;
    macro_rules! go {
        ($($n:expr),*) => {
            match words.len() {
                $( $n => {
                    let mut w = [0u64; $n];
                    w.copy_from_slice(words);
                    let x = Uint::<$n>::from_words(w);
                    let mut le = big(words).to_bytes_le();
                    le.resize(8 * $n, 0);
                    let mut be = le.clone();
                    be.reverse();
                    let got_be = x.to_be_byte_array();
                    let got_le = x.to_le_byte_array();
                    if got_be.as_slice() != &be[..] {
                        out.viol("C16/positional", "ArrayEncoding::to_be_byte_array:be".into(), format!("to_be_byte_array({}) = {}", hexw(words), hex(got_be.as_slice())), plan_json(p));
                    }
                    if got_le.as_slice() != &le[..] {
                        out.viol("C16/positional", "ArrayEncoding::to_le_byte_array:le".into(), format!("to_le_byte_array({}) = {}", hexw(words), hex(got_le.as_slice())), plan_json(p));
                    }
                    {
                        // the array-side spelling of the same two decoders
                        use crypto_bigint::ArrayDecoding;
                        if got_be.clone().into_uint_be() != x {
                            out.viol("C16/positional", "ArrayDecoding::into_uint_be:be".into(), format!("to_be_byte_array({}).into_uint_be() differs", hexw(words)), plan_json(p));
                        }
                        if got_le.clone().into_uint_le() != x {
                            out.viol("C16/positional", "ArrayDecoding::into_uint_le:le".into(), format!("to_le_byte_array({}).into_uint_le() differs", hexw(words)), plan_json(p));
                        }
                    }
                    if Uint::<$n>::from_be_byte_array(got_be) != x {
                        out.viol("C16/positional", "ArrayEncoding::from_be_byte_array:be".into(), format!("from_be_byte_array(to_be_byte_array({})) differs", hexw(words)), plan_json(p));
                    }
                    if Uint::<$n>::from_le_byte_array(got_le) != x {
                        out.viol("C16/positional", "ArrayEncoding::from_le_byte_array:le".into(), format!("from_le_byte_array(to_le_byte_array({})) differs", hexw(words)), plan_json(p));
                    }
                    out.count("probe:array-encoding-positional-checked");
                } )*
                _ => {}
            }
        };
    }
    go!(1, 2, 3, 4, 6, 7, 8, 16, 32);
}

macro_rules! const_monty_persist {
    ($( ($idx:expr, $name:ident, $n:expr) ),* $(,)?) => {
        fn persist_const_monty(id: usize, words: &[u64], p: &Persist, out: &mut RunOut) {
            use crate::moduli::*;
            match id {
                $( $idx => {
                    if $n > 8 { return; }
                    let mut w = [0u64; $n];
                    w.copy_from_slice(&words[..$n]);
                    let x = ConstMontyForm::<$name, $n>::new(&Uint::<$n>::from_words(w));
                    persist(&x, p, Some(8 * $n), out);
                } )*
                _ => {}
            }
        }
    };
}
crate::for_each_modulus_small!(const_monty_persist);

fn exec_persist(p: &Persist, out: &mut RunOut) {
    match p.ty {
        Ty::Limb => {
            let l = Limb(p.words[0]);
            if Encoding::to_le_bytes(&l) != p.words[0].to_le_bytes() || Encoding::to_be_bytes(&l) != p.words[0].to_be_bytes() || Limb::from_le_bytes(p.words[0].to_le_bytes()) != l || Limb::from_be_bytes(p.words[0].to_be_bytes()) != l {
                out.viol("C16/positional", "Limb::Encoding".into(), format!("Limb({:#x}) byte encodings are not positional", p.words[0]), plan_json(p));
            }
            persist(&l, p, None, out)
        }
        Ty::NzLimb => {
            if let Some(x) = Option::<NonZero<Limb>>::from(NonZero::new(Limb(p.words[0]))) {
                persist(&x, p, None, out)
            }
        }
        Ty::ConstMonty(id) => persist_const_monty(id, &p.words, p, out),
        _ => with_limbs!(p.limbs, N, {
            let mut w = [0u64; N];
            w.copy_from_slice(&p.words[..N]);
            let x = Uint::<N>::from_words(w);
            match p.ty {
                Ty::Uint => {
                    positional(&x, p, out);
                    array_positional(&p.words[..N], p, out);
                    persist(&x, p, Some(8 * N), out)
                }
                Ty::WrappingUint => persist(&Wrapping(x), p, Some(8 * N), out),
                Ty::CheckedUint(none) => {
                    let c = if none { Checked(subtle::CtOption::new(x, 0.into())) } else { Checked::new(x) };
                    persist_checked(&c, p, Some(8 * N), out)
                }
                Ty::NzUint => {
                    if let Some(nz) = Option::<NonZero<Uint<N>>>::from(NonZero::new(x)) {
                        persist(&nz, p, Some(8 * N), out)
                    }
                }
                Ty::OddUint => {
                    if let Some(o) = Option::<Odd<Uint<N>>>::from(Odd::new(x)) {
                        persist(&o, p, Some(8 * N), out)
                    }
                }
                _ => {}
            }
        }, else {}),
    }
}

/// `Checked` compares none == none as equal through its `PartialEq`? It has none, so wrap.
#[derive(Debug)]
struct CheckedEq<T>(Checked<T>);
impl<T: PartialEq + Copy> PartialEq for CheckedEq<T> {
    fn eq(&self, o: &Self) -> bool {
        Option::<T>::from(self.0.0) == Option::<T>::from(o.0.0)
    }
}
impl<T: Copy + Serialize> Serialize for CheckedEq<T> {
    fn serialize<S: serde::Serializer>(&self, s: S) -> Result<S::Ok, S::Error> {
        self.0.serialize(s)
    }
}
impl<'de, T: Default + Deserialize<'de>> Deserialize<'de> for CheckedEq<T> {
    fn deserialize<D: serde::Deserializer<'de>>(d: D) -> Result<Self, D::Error> {
        Checked::<T>::deserialize(d).map(CheckedEq)
    }
}

fn persist_checked<T>(c: &Checked<T>, p: &Persist, bytes: Option<usize>, out: &mut RunOut)
where
    T: Copy + Default + PartialEq + Debug + Serialize + DeserializeOwned,
{
    persist(&CheckedEq(*c), p, bytes, out);
}

// ---------------------------------------------------------------------------------------------
// print

#[derive(Clone, Copy, Debug, Serialize, Deserialize, PartialEq, Eq)]
pub enum FmtTrait {
    LowerHex,
    UpperHex,
    Binary,
    Display,
    Debug,
}

#[derive(Clone, Copy, Debug, Serialize, Deserialize, PartialEq, Eq)]
pub enum PTy {
    Limb,
    Uint,
    Int,
    Boxed,
    NzUint,
    OddUint,
    WrappingUint,
    NzLimb,
    OddBoxed,
}

#[derive(Clone, Debug, Serialize, Deserialize)]
pub struct Print {
    pub ty: PTy,
    pub limbs: usize,
    pub words: Vec<u64>,
    pub tr: FmtTrait,
    pub alt: bool,
    /// None: enumerate every capacity 0..len
    pub cap: Option<usize>,
}

fn fmt_into<T: std::fmt::LowerHex + std::fmt::UpperHex + std::fmt::Binary + std::fmt::Display>(x: &T, tr: FmtTrait, alt: bool, sink: &mut SimSink) -> std::fmt::Result {
    match (tr, alt) {
        (FmtTrait::LowerHex, false) => write!(sink, "{:x}", x),
        (FmtTrait::LowerHex, true) => write!(sink, "{:#x}", x),
        (FmtTrait::UpperHex, false) => write!(sink, "{:X}", x),
        (FmtTrait::UpperHex, true) => write!(sink, "{:#X}", x),
        (FmtTrait::Binary, false) => write!(sink, "{:b}", x),
        (FmtTrait::Binary, true) => write!(sink, "{:#b}", x),
        (FmtTrait::Display, false) => write!(sink, "{}", x),
        (FmtTrait::Display, true) => write!(sink, "{:#}", x),
        (FmtTrait::Debug, _) => Ok(()),
    }
}

fn dbg_into<T: Debug>(x: &T, alt: bool, sink: &mut SimSink) -> std::fmt::Result {
    if alt { write!(sink, "{:#?}", x) } else { write!(sink, "{:?}", x) }
}

fn do_print(p: &Print, cap: usize) -> Guarded<(std::fmt::Result, SimSink)> {
    guard(|| {
        let mut sink = SimSink::new(cap);
        macro_rules! go {
            ($x:expr) => {{
                let x = $x;
                let r = if p.tr == FmtTrait::Debug { dbg_into(&x, p.alt, &mut sink) } else { fmt_into(&x, p.tr, p.alt, &mut sink) };
                (r, sink)
            }};
        }
        match p.ty {
            PTy::Limb => go!(Limb(p.words[0])),
            PTy::NzLimb => go!(NonZero::new(Limb(p.words[0] | 1)).unwrap()),
            PTy::Boxed => go!(BoxedUint::from_words(p.words.iter().copied())),
            PTy::OddBoxed => {
                let mut w = p.words.clone();
                w[0] |= 1;
                go!(Odd::new(BoxedUint::from_words(w)).unwrap())
            }
            _ => with_limbs!(p.limbs, N, {
                let mut w = [0u64; N];
                w.copy_from_slice(&p.words[..N]);
                let x = Uint::<N>::from_words(w);
                match p.ty {
                    PTy::Uint => go!(x),
                    PTy::Int => go!(Int::<N>::from_words(w)),
                    PTy::WrappingUint => {
                        if p.tr == FmtTrait::Debug { go!(x) } else {
                            let x = Wrapping(x);
                            let r = fmt_into(&x, p.tr, p.alt, &mut sink);
                            (r, sink)
                        }
                    }
                    PTy::NzUint => {
                        w[0] |= 1;
                        go!(NonZero::new(Uint::<N>::from_words(w)).unwrap())
                    }
                    _ => {
                        w[0] |= 1;
                        go!(Odd::new(Uint::<N>::from_words(w)).unwrap())
                    }
                }
            }, else { (Ok(()), sink) }),
        }
    })
}

fn expected_text(p: &Print) -> Option<String> {
    if p.words.is_empty() {
        return None; // an empty BoxedUint has no stated rendering; run for totality and the prefix property only
    }
    let mut w = p.words.clone();
    if matches!(p.ty, PTy::NzUint | PTy::OddUint | PTy::NzLimb | PTy::OddBoxed) {
        w[0] |= 1;
    }
    if matches!(p.ty, PTy::Limb | PTy::NzLimb) {
        w.truncate(1);
    }
    let mut s = String::new();
    match p.tr {
        // Display is listed by the property among the positional hex renderings; every type of the crate renders it
        // as upper-case hex (the repo's own tests pin that for Uint and Int)
        FmtTrait::LowerHex | FmtTrait::UpperHex | FmtTrait::Display => {
            if p.alt {
                s.push_str("0x");
            }
            for x in w.iter().rev() {
                if p.tr == FmtTrait::LowerHex { s.push_str(&format!("{:016x}", x)) } else { s.push_str(&format!("{:016X}", x)) }
            }
            Some(s)
        }
        FmtTrait::Binary => {
            if p.alt {
                s.push_str("0b");
            }
            for x in w.iter().rev() {
                s.push_str(&format!("{:064b}", x));
            }
            Some(s)
        }
        _ => None,
    }
}

fn print_plan(p: &Print, cap: Option<usize>) -> Option<Value> {
    let mut q = p.clone();
    q.cap = cap.or(q.cap);
    serde_json::to_value(q).ok()
}

fn exec_print(p: &Print, out: &mut RunOut) {
    let tyn = format!("{:?}", p.ty);
    let sig = |e: &str| format!("{:?}:{}:{}{}", p.tr, tyn, if p.alt { "#:" } else { "" }, e);
    // fault-free
    let Guarded::Done((r, full)) = do_print(p, usize::MAX / 2) else {
        out.viol("C11/unexpected-panic", format!("fmt:{}", sig("")), "formatting unwound with an unlimited sink".into(), print_plan(p, Some(usize::MAX / 2)));
        return;
    };
    out.ev(&format!("print/{}/{:?}/{}/{}", tyn, p.tr, p.alt, full.buf.len()));
    out.digest.str(&full.buf);
    if r.is_err() {
        out.viol("C16/fmt-content", sig("spurious-error"), "formatting into an unlimited sink returned Err".into(), print_plan(p, Some(usize::MAX / 2)));
        return;
    }
    if p.words.is_empty() {
        // an empty BoxedUint: the digit count is not stated anywhere, but it is the number zero rendered by this
        // trait — the trait's prefix iff `#`, then nothing but '0' digits
        let prefix = match (p.tr, p.alt) {
            (FmtTrait::Binary, true) => "0b",
            (FmtTrait::LowerHex | FmtTrait::UpperHex | FmtTrait::Display, true) => "0x",
            _ => "",
        };
        if p.tr != FmtTrait::Debug && !(full.buf.starts_with(prefix) && full.buf[prefix.len()..].bytes().all(|c| c == b'0')) {
            out.viol("C16/fmt-content", sig("empty-value"), format!("an empty BoxedUint printed as {:?}; expected the prefix {:?} followed only by zero digits", full.buf, prefix), print_plan(p, Some(usize::MAX / 2)));
        }
    }
    if let Some(want) = expected_text(p) {
        if full.buf != want {
            out.viol("C16/fmt-content", sig("content"), format!("printed {:?}, positional expansion {:?}", full.buf, want), print_plan(p, Some(usize::MAX / 2)));
        }
        out.count("probe:fmt-content-checked");
    }
    out.state(format!("print|{}|{:?}|alt={}|chunks={}", tyn, p.tr, p.alt, full.chunks.len().min(9)));
    // every capacity below the full length
    let len = full.buf.len();
    let caps: Vec<usize> = match p.cap {
        Some(c) => vec![c],
        None => (0..len).collect(),
    };
    for c in caps {
        if c >= len {
            continue;
        }
        out.count("fault:sink-full");
        match do_print(p, c) {
            Guarded::Done((r, sink)) => {
                out.ev(&format!("cap/{}/{}", c, r.is_ok()));
                if r.is_ok() {
                    out.viol("C16/fmt-error-swallowed", sig(""), format!("sink refused at capacity {} of {} but the call returned Ok", c, len), print_plan(p, Some(c)));
                }
                if !full.buf.starts_with(&sink.buf) {
                    out.viol("C16/fmt-prefix", sig(""), format!("sink content {:?} at capacity {} is not a prefix of {:?}", sink.buf, c, full.buf), print_plan(p, Some(c)));
                }
            }
            Guarded::Panic(pi) => {
                out.viol("C11/unexpected-panic", format!("fmt:{}:{}", sig(""), pi.location), format!("formatting unwound at {} when the sink refused at capacity {}", pi.location, c), print_plan(p, Some(c)));
            }
            Guarded::Budget => {}
        }
    }
    if p.cap.is_none() {
        out.count("probe:all-sink-capacities-enumerated");
    }
}

// ---------------------------------------------------------------------------------------------
// generation

pub fn gen_words(r: &mut Xoshiro, limbs: usize) -> Vec<u64> {
    if limbs == 0 {
        return Vec::new();
    }
    let mut w = vec![0u64; limbs];
    match r.below(9) {
        0 => {}
        1 => w[0] = 1,
        2 => w.fill(u64::MAX),
        3 => {
            // single bit at a byte boundary
            let bit = 8 * r.below(8 * limbs as u64) + *r.pick(&[0u64, 7]);
            w[(bit / 64) as usize] = 1 << (bit % 64);
        }
        4 => {
            // bytes 00 01 02 .. so that every position is distinguishable
            for (i, x) in w.iter_mut().enumerate() {
                let mut b = [0u8; 8];
                for (j, y) in b.iter_mut().enumerate() {
                    *y = (8 * i + j) as u8;
                }
                *x = u64::from_le_bytes(b);
            }
        }
        5 => {
            let k = r.below(limbs as u64) as usize;
            w[k] = r.next();
        }
        6 => {
            for x in w.iter_mut() {
                *x = *r.pick(&[0u64, u64::MAX, 1, 0x8000_0000_0000_0000]);
            }
        }
        _ => {
            for x in w.iter_mut() {
                *x = r.next();
            }
        }
    }
    w
}

fn gen_medium_fault(r: &mut Xoshiro, len: usize) -> Fault {
    let len = len.max(1) as u64;
    match r.below(9) {
        0 | 1 => Fault::Truncate(r.below(len) as usize),
        2 => Fault::ZeroTail(r.range(1, len) as usize),
        3 => Fault::FlipBit(r.below(8 * len) as usize),
        4 => Fault::DropByte(r.below(len) as usize),
        5 => Fault::DupByte(r.below(len) as usize),
        6 => {
            let n = r.range(1, 4) as usize;
            Fault::Append(r.bytes(n).iter().map(|b| b"0123456789abcdefABCDEFg/:@G`\x00 "[(*b as usize) % 30]).collect())
        }
        7 => Fault::Prepend(*r.pick(&[b'0', b'f', 0u8, 0xff, b' '])),
        _ => Fault::SetAt(r.below(len) as usize, *r.pick(&[b'g', b'G', b'/', b':', b'@', b'`', 0x00, 0x80, 0xff, b'0'])),
    }
}

pub struct PersistSc;
pub struct PrintSc;

impl TypedScenario for PersistSc {
    type Plan = Persist;
    fn name(&self) -> &'static str {
        "c16-persist"
    }
    fn n_runs(&self, tier: Tier) -> u64 {
        match tier {
            Tier::Quick => 60_000,
            Tier::Thorough => 24_000_000,
        }
    }
    fn generate(&self, seed: u64, tier: Tier, i: u64) -> Persist {
        let mut r = Xoshiro::new(mix(seed, 0x16, i));
        let ws: &[usize] = if tier == Tier::Quick { &SERDE_LIMBS_QUICK } else { &SERDE_LIMBS };
        let mut limbs = *r.pick(ws);
        let ty = match r.below(14) {
            0 => Ty::Limb,
            1 => Ty::NzLimb,
            2 | 3 | 4 | 5 => Ty::Uint,
            6 => Ty::WrappingUint,
            7 => Ty::CheckedUint(false),
            8 => Ty::CheckedUint(r.chance(1, 2)),
            9 => Ty::NzUint,
            10 => Ty::OddUint,
            11 => {
                let cands: Vec<(usize, usize)> = crate::moduli::SMALL_TABLE.iter().copied().filter(|(_, l)| *l <= 8).collect();
                let (id, l) = *r.pick(&cands);
                limbs = l;
                Ty::ConstMonty(id)
            }
            _ => Ty::Uint,
        };
        if matches!(ty, Ty::Limb | Ty::NzLimb) {
            limbs = 1;
        }
        let mut words = gen_words(&mut r, limbs);
        if matches!(ty, Ty::NzUint | Ty::OddUint | Ty::NzLimb) {
            words[0] |= 1;
        }
        let format = *r.pick(&[Format::SimBin, Format::SimBin, Format::SimHuman, Format::SimHuman, Format::Bincode, Format::Json]);
        let payload_len = match format {
            Format::SimHuman | Format::Json => 16 * limbs + 2,
            _ => 8 * limbs + 8,
        };
        let nf = *r.pick(&[0usize, 0, 1, 1, 1, 2]);
        let mut faults = Vec::new();
        for _ in 0..nf {
            faults.push(match r.below(12) {
                0 => TokFault::AsStr,
                1 => TokFault::AsBytes,
                2 => TokFault::DropTok(r.below(2) as usize),
                3 => TokFault::FlipOption,
                4 => TokFault::U64Xor(1u64 << r.below(64)),
                5 => TokFault::UpperCase,
                _ => TokFault::Payload(gen_medium_fault(&mut r, payload_len)),
            });
        }
        let styles = [Delivery::Transient, Delivery::Borrowed, Delivery::Owned];
        let sim = matches!(format, Format::SimBin | Format::SimHuman);
        Persist {
            ty,
            limbs,
            words,
            format,
            bytes_style: *r.pick(&styles),
            str_style: *r.pick(&styles),
            faults,
            de_fail_at: if sim && r.chance(1, 12) { Some(r.below(3) as usize) } else { None },
            ser_fail_at: if sim && r.chance(1, 16) { Some(r.below(3) as usize) } else { None },
            truncate_all: sim && r.chance(1, 10),
        }
    }
    fn exec(&self, plan: &Persist, out: &mut RunOut) {
        exec_persist(plan, out);
    }
    fn shrink(&self, p: &Persist) -> Vec<Persist> {
        let mut v = Vec::new();
        for i in 0..p.faults.len() {
            let mut q = p.clone();
            q.faults.remove(i);
            v.push(q);
        }
        if p.truncate_all {
            let mut q = p.clone();
            q.truncate_all = false;
            v.push(q);
        }
        if p.de_fail_at.is_some() {
            let mut q = p.clone();
            q.de_fail_at = None;
            v.push(q);
        }
        for &l in SERDE_LIMBS.iter().filter(|&&l| l < p.limbs) {
            if matches!(p.ty, Ty::ConstMonty(_)) {
                break;
            }
            let mut q = p.clone();
            q.limbs = l;
            q.words.truncate(l);
            v.push(q);
        }
        for i in 0..p.words.len() {
            if p.words[i] != 0 && p.words[i] != 1 {
                let mut q = p.clone();
                q.words[i] = if i == 0 { 1 } else { 0 };
                v.push(q);
            }
        }
        v
    }
}

impl TypedScenario for PrintSc {
    type Plan = Print;
    fn name(&self) -> &'static str {
        "c16-print"
    }
    fn chunk(&self) -> u64 {
        16
    }
    fn n_runs(&self, tier: Tier) -> u64 {
        match tier {
            Tier::Quick => 4_000,
            Tier::Thorough => 1_000_000,
        }
    }
    fn generate(&self, seed: u64, _tier: Tier, i: u64) -> Print {
        let mut r = Xoshiro::new(mix(seed, 0x1661, i));
        let ty = *r.pick(&[PTy::Limb, PTy::Uint, PTy::Uint, PTy::Int, PTy::Boxed, PTy::Boxed, PTy::NzUint, PTy::OddUint, PTy::WrappingUint, PTy::NzLimb, PTy::OddBoxed]);
        let limbs = match ty {
            PTy::Limb | PTy::NzLimb => 1,
            PTy::Boxed => r.below(10) as usize, // 0 limbs: the empty BoxedUint special case (no content oracle, see expected_text)
            PTy::OddBoxed => r.range(1, 9) as usize,
            _ => *r.pick(&[1usize, 2, 3, 4, 6, 8]),
        };
        let tr = *r.pick(&[FmtTrait::LowerHex, FmtTrait::UpperHex, FmtTrait::Binary, FmtTrait::Display, FmtTrait::Debug]);
        Print { ty, limbs, words: gen_words(&mut r, limbs), tr, alt: r.chance(1, 2), cap: None }
    }
    fn exec(&self, plan: &Print, out: &mut RunOut) {
        exec_print(plan, out);
    }
    fn shrink(&self, p: &Print) -> Vec<Print> {
        let mut v = Vec::new();
        if p.limbs > 1 && !matches!(p.ty, PTy::Limb | PTy::NzLimb) {
            let mut q = p.clone();
            q.limbs = 1;
            q.words.truncate(1);
            v.push(q);
        }
        for i in 0..p.words.len() {
            if p.words[i] != 0 {
                let mut q = p.clone();
                q.words[i] = 0;
                v.push(q);
            }
        }
        v
    }
}
