//! Trusted bridge between library values and mathematical values: the word representation
//! (limb i has weight 2^(64 i)).

use num_bigint::BigUint;
use num_traits::{One, Zero};

pub fn big(words: &[u64]) -> BigUint {
    let mut bytes = Vec::with_capacity(words.len() * 8);
    for w in words {
        bytes.extend_from_slice(&w.to_le_bytes());
    }
    BigUint::from_bytes_le(&bytes)
}

/// Low `n` words of `x` (truncating).
pub fn words(x: &BigUint, n: usize) -> Vec<u64> {
    let mut v = x.to_u64_digits();
    v.resize(n, 0);
    v.truncate(n);
    v
}

pub fn pow2(k: u32) -> BigUint {
    BigUint::one() << k as usize
}

pub fn hexw(words: &[u64]) -> String {
    let mut s = String::from("0x");
    for w in words.iter().rev() {
        s.push_str(&format!("{:016x}", w));
    }
    s
}

pub fn is_zero(words: &[u64]) -> bool {
    words.iter().all(|&w| w == 0)
}

pub fn is_odd(words: &[u64]) -> bool {
    words.first().map(|w| w & 1 == 1).unwrap_or(false)
}

pub fn bits(words: &[u64]) -> u32 {
    for (i, w) in words.iter().enumerate().rev() {
        if *w != 0 {
            return i as u32 * 64 + (64 - w.leading_zeros());
        }
    }
    0
}

pub fn big_is_zero(x: &BigUint) -> bool {
    x.is_zero()
}

/// Dispatch a runtime limb count to a const generic. Usage:
/// `with_limbs!(n, N, { expr using N }, else { fallback })`
#[macro_export]
macro_rules! with_limbs {
    ($n:expr, $N:ident, $body:block, else $fallback:block) => {
        match $n {
            1 => {
                const $N: usize = 1;
                $body
            }
            2 => {
                const $N: usize = 2;
                $body
            }
            3 => {
                const $N: usize = 3;
                $body
            }
            4 => {
                const $N: usize = 4;
                $body
            }
            5 => {
                const $N: usize = 5;
                $body
            }
            7 => {
                const $N: usize = 7;
                $body
            }
            6 => {
                const $N: usize = 6;
                $body
            }
            8 => {
                const $N: usize = 8;
                $body
            }
            16 => {
                const $N: usize = 16;
                $body
            }
            32 => {
                const $N: usize = 32;
                $body
            }
            _ => $fallback,
        }
    };
}

pub const FIXED_WIDTHS: [usize; 8] = [1, 2, 3, 4, 6, 8, 16, 32];
