//! Scenario trait, parallel deterministic batch runner, violation reporting, minimiser,
//! known findings, evidence writer.

use crate::prng::Digest;
use serde::{Serialize, de::DeserializeOwned};
use serde_json::{Value, json};
use std::collections::{BTreeMap, BTreeSet};
use std::path::{Path, PathBuf};
use std::sync::Mutex;
use std::sync::atomic::{AtomicU64, Ordering};
use std::time::Instant;

#[derive(Clone, Copy, Debug, PartialEq, Eq)]
pub enum Tier {
    Quick,
    Thorough,
}

impl Tier {
    pub fn name(self) -> &'static str {
        match self {
            Tier::Quick => "quick",
            Tier::Thorough => "thorough",
        }
    }
}

#[derive(Clone, Debug)]
pub struct Viol {
    pub check_id: String,
    pub signature: String,
    pub detail: String,
    /// concrete plan that reproduces exactly this violation (may be narrower than the run's plan)
    pub plan: Option<Value>,
}

/// What one simulated run produced.
#[derive(Default)]
pub struct RunOut {
    pub digest: Digest,
    pub events: u64,
    pub viols: Vec<Viol>,
    pub counters: BTreeMap<String, u64>,
    pub states: BTreeSet<String>,
    pub sample: Option<Value>,
}

impl RunOut {
    pub fn count(&mut self, key: &str) {
        self.add(key, 1);
    }
    pub fn add(&mut self, key: &str, n: u64) {
        if n > 0 {
            *self.counters.entry(key.to_string()).or_insert(0) += n;
        }
    }
    pub fn state(&mut self, s: String) {
        self.states.insert(s);
    }
    pub fn viol(&mut self, check_id: &str, signature: String, detail: String, plan: Option<Value>) {
        // the RNG device's own liveness bound surfaces as an unwind; it is a non-termination, not a panic
        let check_id = if check_id == "C11/unexpected-panic" && (signature.contains(crate::monitor::LIVELOCK_MARK) || detail.contains(crate::monitor::LIVELOCK_MARK)) {
            "C11/non-termination"
        } else {
            check_id
        };
        // one report per (check, signature) per run is enough
        if self.viols.iter().any(|v| v.check_id == check_id && v.signature == signature) {
            return;
        }
        self.viols.push(Viol { check_id: check_id.to_string(), signature, detail, plan });
    }
    /// log an event into the digest
    pub fn ev(&mut self, tag: &str) {
        self.events += 1;
        self.digest.str(tag);
    }
}

pub trait TypedScenario: Sync + Send {
    type Plan: Serialize + DeserializeOwned + Clone;
    fn name(&self) -> &'static str;
    fn n_runs(&self, tier: Tier) -> u64;
    fn generate(&self, seed: u64, tier: Tier, i: u64) -> Self::Plan;
    fn exec(&self, plan: &Self::Plan, out: &mut RunOut);
    fn shrink(&self, _plan: &Self::Plan) -> Vec<Self::Plan> {
        Vec::new()
    }
    /// runs per work unit (1 for heavy runs)
    fn chunk(&self) -> u64 {
        64
    }
}

pub trait Scenario: Sync + Send {
    fn name(&self) -> &'static str;
    fn n_runs(&self, tier: Tier) -> u64;
    fn run(&self, seed: u64, tier: Tier, i: u64, out: &mut RunOut) -> Value;
    fn plan_json(&self, seed: u64, tier: Tier, i: u64) -> Value;
    fn replay(&self, plan: &Value, out: &mut RunOut) -> Result<(), String>;
    fn shrink(&self, plan: &Value) -> Vec<Value>;
    fn chunk(&self) -> u64;
}

impl<T: TypedScenario> Scenario for T {
    fn name(&self) -> &'static str {
        TypedScenario::name(self)
    }
    fn chunk(&self) -> u64 {
        TypedScenario::chunk(self)
    }
    fn n_runs(&self, tier: Tier) -> u64 {
        TypedScenario::n_runs(self, tier)
    }
    fn run(&self, seed: u64, tier: Tier, i: u64, out: &mut RunOut) -> Value {
        let plan = self.generate(seed, tier, i);
        self.exec(&plan, out);
        if !out.viols.is_empty() || out.sample.is_none() && i < 3 {
            let v = serde_json::to_value(&plan).unwrap_or(Value::Null);
            if i < 3 && out.sample.is_none() {
                out.sample = Some(v.clone());
            }
            return v;
        }
        Value::Null
    }
    fn plan_json(&self, seed: u64, tier: Tier, i: u64) -> Value {
        serde_json::to_value(self.generate(seed, tier, i)).unwrap_or(Value::Null)
    }
    fn replay(&self, plan: &Value, out: &mut RunOut) -> Result<(), String> {
        let p: T::Plan = serde_json::from_value(plan.clone()).map_err(|e| format!("cannot parse plan: {e}"))?;
        self.exec(&p, out);
        Ok(())
    }
    fn shrink(&self, plan: &Value) -> Vec<Value> {
        let Ok(p) = serde_json::from_value::<T::Plan>(plan.clone()) else { return vec![] };
        TypedScenario::shrink(self, &p)
            .into_iter()
            .filter_map(|q| serde_json::to_value(q).ok())
            .collect()
    }
}

/// Wrapper that runs only the first 1/frac of another scenario's batch (same run index -> same plan).
pub struct Sub {
    pub inner: Box<dyn Scenario>,
    pub frac: u64,
    pub min: u64,
}

impl Scenario for Sub {
    fn name(&self) -> &'static str {
        self.inner.name()
    }
    fn n_runs(&self, tier: Tier) -> u64 {
        let n = self.inner.n_runs(tier);
        // quick: 1/frac of the batch; thorough: 1/(4 frac) (both profiles run it, one after the other)
        let f = if tier == Tier::Thorough { 4 * self.frac.max(1) } else { self.frac.max(1) };
        (n / f).max(self.min.min(n))
    }
    fn run(&self, seed: u64, tier: Tier, i: u64, out: &mut RunOut) -> Value {
        self.inner.run(seed, tier, i, out)
    }
    fn plan_json(&self, seed: u64, tier: Tier, i: u64) -> Value {
        self.inner.plan_json(seed, tier, i)
    }
    fn replay(&self, plan: &Value, out: &mut RunOut) -> Result<(), String> {
        self.inner.replay(plan, out)
    }
    fn shrink(&self, plan: &Value) -> Vec<Value> {
        self.inner.shrink(plan)
    }
    fn chunk(&self) -> u64 {
        self.inner.chunk()
    }
}

/// A violation located in a batch.
#[derive(Clone, Debug)]
pub struct Found {
    pub scenario: &'static str,
    pub run: u64,
    pub viol: Viol,
    pub plan: Value,
}

#[derive(Default)]
pub struct BatchStats {
    pub runs: u64,
    pub events: u64,
    pub digest: Digest,
    pub counters: BTreeMap<String, u64>,
    pub states: BTreeSet<String>,
    pub samples: Vec<Value>,
    pub found: Vec<Found>,
    pub per_scenario: BTreeMap<String, (u64, u64)>,
    /// (scenario, run, digest) for every run — only filled when `keep_run_digests` is set
    pub keep_run_digests: bool,
    pub run_digests: Vec<(&'static str, u64, (u64, u64))>,
}

pub fn workers() -> usize {
    std::env::var("CBSIM_WORKERS")
        .ok()
        .and_then(|s| s.parse().ok())
        .unwrap_or_else(|| std::thread::available_parallelism().map(|n| n.get()).unwrap_or(4).min(16))
}

/// Per-worker "run i started at t" slots for the watchdog (real clock; never feeds back into a run).
static WD_RUN: [AtomicU64; 64] = [const { AtomicU64::new(u64::MAX) }; 64];
static WD_START_MS: [AtomicU64; 64] = [const { AtomicU64::new(0) }; 64];

fn now_ms() -> u64 {
    use std::time::{SystemTime, UNIX_EPOCH};
    SystemTime::now().duration_since(UNIX_EPOCH).map(|d| d.as_millis() as u64).unwrap_or(0)
}

fn watchdog_limit_ms() -> u64 {
    std::env::var("CBSIM_WATCHDOG_S").ok().and_then(|s| s.parse::<u64>().ok()).unwrap_or(300) * 1000
}

#[derive(Default)]
struct ChunkAgg {
    digests: Vec<(u64, u64)>,
    events: u64,
    viols: Vec<(u64, Viol, Value)>,
    counters: BTreeMap<String, u64>,
    states: BTreeSet<String>,
    samples: Vec<(u64, Value)>,
}

/// Run every scenario's batch. Work is distributed over threads by an atomic counter; results are
/// reduced strictly in (scenario, run index) order, so the output does not depend on the worker count.
pub fn run_batch(scenarios: &[Box<dyn Scenario>], seed: u64, tier: Tier, stats: &mut BatchStats, property: &str, root: &Path) {
    for sc in scenarios {
        let CHUNK: u64 = sc.chunk().max(1);
        let n = sc.n_runs(tier);
        let next = AtomicU64::new(0);
        let nchunks = n.div_ceil(CHUNK);
        // (pending chunks, next chunk index to reduce, stats)
        let shared: Mutex<(BTreeMap<u64, ChunkAgg>, u64, &mut BatchStats)> = Mutex::new((BTreeMap::new(), 0, stats));
        let live = AtomicU64::new(workers() as u64);
        std::thread::scope(|s| {
            // watchdog: a run that does not finish within the limit is a non-termination violation
            s.spawn(|| {
                let limit = watchdog_limit_ms();
                while live.load(Ordering::Relaxed) > 0 {
                    std::thread::sleep(std::time::Duration::from_millis(200));
                    let now = now_ms();
                    for w in 0..64 {
                        let st = WD_START_MS[w].load(Ordering::Relaxed);
                        let run = WD_RUN[w].load(Ordering::Relaxed);
                        if st != 0 && run != u64::MAX && now.saturating_sub(st) > limit {
                            let plan = sc.plan_json(seed, tier, run);
                            let dir = root.join("replays");
                            let _ = std::fs::create_dir_all(&dir);
                            let path = dir.join(format!("C11_non-termination-{}-s{}-r{}.json", sc.name(), seed, run));
                            let doc = json!({"v":1,"property":property,"scenario":sc.name(),"check_id":"C11/non-termination","signature":format!("watchdog:{}", sc.name()),
                                "detail":format!("run did not finish within {} s", limit/1000),"seed":seed,"run":run,"plan":plan});
                            let _ = std::fs::write(&path, serde_json::to_string_pretty(&doc).unwrap_or_default() + "\n");
                            println!("VIOLATION property={} replay={} check=C11/non-termination signature=watchdog:{} detail=run {} of scenario {} did not finish within {} s (replaying this file hangs likewise)", property, path.display(), sc.name(), run, sc.name(), limit/1000);
                            std::process::exit(1);
                        }
                    }
                }
            });
            for w in 0..workers() {
                let live = &live;
                let next = &next;
                let shared = &shared;
                s.spawn(move || {
                    loop {
                        let c = next.fetch_add(1, Ordering::Relaxed);
                        if c >= nchunks {
                            WD_START_MS[w % 64].store(0, Ordering::Relaxed);
                            live.fetch_sub(1, Ordering::Relaxed);
                            break;
                        }
                        let lo = c * CHUNK;
                        let hi = (lo + CHUNK).min(n);
                        let mut agg = ChunkAgg::default();
                        for i in lo..hi {
                            WD_RUN[w % 64].store(i, Ordering::Relaxed);
                            WD_START_MS[w % 64].store(now_ms(), Ordering::Relaxed);
                            let mut out = RunOut::default();
                            // a panic outside `guard` is a bug of the harness itself, never a finding
                            let plan = match std::panic::catch_unwind(std::panic::AssertUnwindSafe(|| sc.run(seed, tier, i, &mut out))) {
                                Ok(p) => p,
                                Err(_) => {
                                    // where did it happen? in the library under test (a call the scenario made outside
                                    // `guard`): a totality violation of that run; in the simulator itself: harness error
                                    match crate::monitor::take_unguarded() {
                                        Some((raw, msg)) if crate::monitor::is_library_location(&raw) => {
                                            let loc = crate::monitor::strip_location(&raw);
                                            let plan = sc.plan_json(seed, tier, i);
                                            out.viol(
                                                "C11/unexpected-panic",
                                                format!("unmonitored-call:{}:{}", sc.name(), loc),
                                                format!("the library panicked at {} ({}) in a call the scenario makes outside its per-operation monitor; the rest of run {} was abandoned", loc, msg, i),
                                                Some(plan.clone()),
                                            );
                                            plan
                                        }
                                        _ => {
                                            eprintln!("harness error: the simulator itself panicked in run {} of scenario {} (seed {}); this is not a verdict on the code under test", i, sc.name(), seed);
                                            std::process::exit(2);
                                        }
                                    }
                                }
                            };
                            agg.digests.push(out.digest.finish());
                            agg.events += out.events;
                            for v in std::mem::take(&mut out.viols) {
                                let p = v.plan.clone().unwrap_or_else(|| plan.clone());
                                agg.viols.push((i, v, p));
                            }
                            for (k, v) in out.counters {
                                *agg.counters.entry(k).or_insert(0) += v;
                            }
                            agg.states.extend(out.states);
                            if let Some(sm) = out.sample {
                                agg.samples.push((i, sm));
                            }
                        }
                        WD_START_MS[w % 64].store(0, Ordering::Relaxed);
                        let mut g = shared.lock().unwrap();
                        g.0.insert(c, agg);
                        loop {
                            let want = g.1;
                            let Some(agg) = g.0.remove(&want) else { break };
                            let st = &mut *g.2;
                            let nruns = agg.digests.len() as u64;
                            st.runs += nruns;
                            st.events += agg.events;
                            for (k, d) in agg.digests.iter().enumerate() {
                                st.digest.u64(d.0);
                                st.digest.u64(d.1);
                                if st.keep_run_digests {
                                    st.run_digests.push((sc.name(), want * CHUNK + k as u64, *d));
                                }
                            }
                            for (key, v) in agg.counters {
                                *st.counters.entry(key).or_insert(0) += v;
                            }
                            st.states.extend(agg.states);
                            for (run, sm) in agg.samples {
                                if st.samples.len() < 12 {
                                    st.samples.push(json!({"scenario": sc.name(), "run": run, "plan": sm}));
                                }
                            }
                            let e = st.per_scenario.entry(sc.name().to_string()).or_insert((0, 0));
                            e.0 += nruns;
                            e.1 += agg.events;
                            for (run, v, plan) in agg.viols {
                                if st.found.len() < 4096 {
                                    st.found.push(Found { scenario: sc.name(), run, viol: v, plan });
                                }
                            }
                            g.1 += 1;
                        }
                    }
                });
            }
        });
    }
}

// ---------------------------------------------------------------------------------------------
// known findings

#[derive(Clone, Debug, serde::Deserialize)]
pub struct KnownEntry {
    pub property: String,
    pub check_id: String,
    /// exact signature, or a prefix ending in `*`
    pub signature: String,
    pub what: String,
    #[serde(default)]
    pub status: String, // "known" | "fixed"
    #[serde(default)]
    pub commit: String,
}

#[derive(Default)]
pub struct Known {
    pub entries: Vec<KnownEntry>,
}

impl Known {
    pub fn load(root: &Path) -> Result<Known, String> {
        let p = root.join("known_findings.json");
        if !p.exists() {
            return Ok(Known::default());
        }
        let s = std::fs::read_to_string(&p).map_err(|e| e.to_string())?;
        let v: Value = serde_json::from_str(&s).map_err(|e| format!("known_findings.json: {e}"))?;
        let arr = v.get("findings").cloned().unwrap_or(Value::Array(vec![]));
        let entries: Vec<KnownEntry> = serde_json::from_value(arr).map_err(|e| format!("known_findings.json: {e}"))?;
        Ok(Known { entries })
    }
    pub fn matches(&self, property: &str, v: &Viol) -> Option<&KnownEntry> {
        self.entries.iter().find(|e| {
            e.status != "fixed"
                && e.property == property
                && e.check_id == v.check_id
                && (e.signature == v.signature
                    || e.signature.ends_with('*') && v.signature.starts_with(&e.signature[..e.signature.len() - 1]))
        })
    }
}

// ---------------------------------------------------------------------------------------------
// minimiser

/// `sc.replay` with the same classification of a panic outside `guard` as the batch runner: in the library → the
/// C11/unexpected-panic finding of that plan; in the simulator → harness error (exit 2).
pub fn replay_caught(sc: &dyn Scenario, plan: &Value, out: &mut RunOut) -> Result<(), String> {
    match std::panic::catch_unwind(std::panic::AssertUnwindSafe(|| sc.replay(plan, out))) {
        Ok(r) => r,
        Err(_) => match crate::monitor::take_unguarded() {
            Some((raw, msg)) if crate::monitor::is_library_location(&raw) => {
                let loc = crate::monitor::strip_location(&raw);
                out.viol(
                    "C11/unexpected-panic",
                    format!("unmonitored-call:{}:{}", sc.name(), loc),
                    format!("the library panicked at {} ({}) in a call the scenario makes outside its per-operation monitor", loc, msg),
                    Some(plan.clone()),
                );
                Ok(())
            }
            _ => {
                eprintln!("harness error: the simulator itself panicked while replaying a plan of scenario {}; this is not a verdict on the code under test", sc.name());
                std::process::exit(2);
            }
        },
    }
}

pub fn reproduces(sc: &dyn Scenario, plan: &Value, check_id: &str, signature: Option<&str>) -> Option<Viol> {
    let mut out = RunOut::default();
    if replay_caught(sc, plan, &mut out).is_err() {
        return None;
    }
    out.viols
        .into_iter()
        .find(|v| v.check_id == check_id && signature.map(|s| s == v.signature).unwrap_or(true))
}

/// Greedy shrinking while the same check_id *and signature* still fail.
pub fn minimise(sc: &dyn Scenario, plan: Value, viol: &Viol) -> (Value, Viol, u64) {
    let mut cur = plan;
    let mut curv = viol.clone();
    let mut execs = 0u64;
    let mut progress = true;
    while progress && execs < 3000 {
        progress = false;
        for cand in sc.shrink(&cur) {
            execs += 1;
            if let Some(v) = reproduces(sc, &cand, &viol.check_id, None) {
                // the reproducing plan reported by the run may be narrower still
                cur = v.plan.clone().filter(|p| reproduces(sc, p, &viol.check_id, Some(&v.signature)).is_some()).unwrap_or(cand);
                curv = v;
                progress = true;
                break;
            }
            if execs >= 3000 {
                break;
            }
        }
    }
    (cur, curv, execs)
}

// ---------------------------------------------------------------------------------------------
// reporting

pub struct Report {
    pub property: &'static str,
    pub level: &'static str,
    pub tier: Tier,
    pub seed: u64,
    pub root: PathBuf,
    pub rule: String,
    pub assumptions: Vec<String>,
    pub real_components: Vec<String>,
    pub stub_components: Vec<String>,
    pub extra: BTreeMap<String, Value>,
}

fn sanitize(s: &str) -> String {
    s.chars().map(|c| if c.is_ascii_alphanumeric() || c == '-' || c == '_' { c } else { '_' }).collect()
}

pub struct Outcome {
    pub violations: u64,
    pub known: u64,
}

/// Dedup, minimise, write replays, print lines, write evidence. Returns the number of unlisted violations.
pub fn finish(rep: &Report, scenarios: &[Box<dyn Scenario>], stats: &BatchStats, known: &Known, wall_s: f64) -> Outcome {
    let mut seen: BTreeSet<(String, String)> = BTreeSet::new();
    let mut lines_v = Vec::new();
    let mut lines_k = Vec::new();
    let mut listed = Vec::new();
    let replay_dir = rep.root.join("replays");
    let mut other_props: BTreeMap<String, u64> = BTreeMap::new();
    for f in &stats.found {
        if !f.viol.check_id.starts_with(rep.property) {
            // belongs to another property's check (e.g. a C11/* finding seen while simulating C19); counted, not reported here
            *other_props.entry(f.viol.check_id.clone()).or_insert(0) += 1;
            continue;
        }
        let key = (f.viol.check_id.clone(), f.viol.signature.clone());
        if !seen.insert(key) {
            continue;
        }
        if seen.len() > 40 {
            break;
        }
        let sc = scenarios.iter().find(|s| s.name() == f.scenario).unwrap();
        // minimise (the plan stored with the violation already reproduces it)
        let (plan, viol, execs) = if reproduces(sc.as_ref(), &f.plan, &f.viol.check_id, Some(&f.viol.signature)).is_some() {
            minimise(sc.as_ref(), f.plan.clone(), &f.viol)
        } else {
            (f.plan.clone(), f.viol.clone(), 0)
        };
        if viol.signature != f.viol.signature && !seen.insert((viol.check_id.clone(), viol.signature.clone())) {
            continue; // minimised to a violation already reported
        }
        let is_known = known.matches(rep.property, &viol).or_else(|| known.matches(rep.property, &f.viol));
        let fname = format!(
            "{}-{}-{}.json",
            sanitize(&viol.check_id),
            sanitize(&viol.signature).chars().take(80).collect::<String>(),
            if is_known.is_some() { "known".to_string() } else { format!("s{}-r{}", rep.seed, f.run) }
        );
        let path = replay_dir.join(&fname);
        let doc = json!({
            "v": 1,
            "property": rep.property,
            "scenario": f.scenario,
            "check_id": viol.check_id,
            "signature": viol.signature,
            "detail": viol.detail,
            "seed": rep.seed,
            "run": f.run,
            "minimiser_execs": execs,
            "plan": plan,
        });
        let _ = std::fs::create_dir_all(&replay_dir);
        let _ = std::fs::write(&path, serde_json::to_string_pretty(&doc).unwrap() + "\n");
        if let Some(k) = is_known {
            lines_k.push(format!("KNOWN-FINDING: property={} {} [{} {}] replay={}", rep.property, k.what, viol.check_id, viol.signature, path.display()));
        } else {
            lines_v.push(format!(
                "VIOLATION property={} replay={} check={} signature={} detail={}",
                rep.property,
                path.display(),
                viol.check_id,
                viol.signature,
                viol.detail.replace('\n', " ")
            ));
        }
        listed.push(json!({"check_id": viol.check_id, "signature": viol.signature, "detail": viol.detail, "known": is_known.is_some(), "replay": path.display().to_string()}));
    }
    for l in &lines_k {
        println!("{l}");
    }
    for l in &lines_v {
        println!("{l}");
    }

    // evidence
    let runs_per_hour = if wall_s > 0.0 { (stats.runs as f64 / wall_s * 3600.0) as u64 } else { 0 };
    let mut faults = BTreeMap::new();
    let mut probes = BTreeMap::new();
    let mut other = BTreeMap::new();
    for (k, v) in &stats.counters {
        if let Some(f) = k.strip_prefix("fault:") {
            faults.insert(f.to_string(), *v);
        } else if let Some(p) = k.strip_prefix("probe:") {
            probes.insert(p.to_string(), *v);
        } else {
            other.insert(k.clone(), *v);
        }
    }
    let not_reached: Vec<&String> = probes.iter().filter(|(_, v)| **v == 0).map(|(k, _)| k).collect();
    let mut coverage = json!({
        "evaluations": stats.runs,
        "events": stats.events,
        "distinct_nontrivial": stats.states.len(),
        "rule": rep.rule,
        "samples": stats.samples,
        "runs_per_hour": runs_per_hour,
        "seeds": format!("VERIF_SEED={} expanded to {} per-run seeds (one per run)", rep.seed, stats.runs),
        "simulated_time": "n/a — the system has no clock or timers",
        "schedules": "n/a — no concurrency in the library; interleaving dimension is the order of operations inside a history",
        "faults_fired": faults,
        "probes": probes,
        "probes_not_reached": not_reached,
        "counters": other,
        "per_scenario_runs_events": stats.per_scenario,
        "abstract_states_sample": stats.states.iter().take(24).collect::<Vec<_>>(),
        "real_components": rep.real_components,
        "stub_components": rep.stub_components,
        "batch_digest": stats.digest.hex(),
        "findings": listed,
        "observed_but_reported_under_other_property": other_props,
        "exhaustive": false,
    });
    for (k, v) in &rep.extra {
        coverage[k] = v.clone();
    }
    let ev = json!({
        "property_id": rep.property,
        "tier": rep.tier.name(),
        "seed": rep.seed,
        "level": rep.level,
        "coverage": coverage,
        "assumptions": rep.assumptions,
        "wall_s": (wall_s * 1000.0).round() / 1000.0,
        "violations": lines_v.len(),
        "known_findings_printed": lines_k.len(),
    });
    let evdir = rep.root.join("evidence");
    let _ = std::fs::create_dir_all(&evdir);
    let evpath = evdir.join(format!("{}.json", rep.property));
    if let Err(e) = std::fs::write(&evpath, serde_json::to_string_pretty(&ev).unwrap() + "\n") {
        eprintln!("harness error: cannot write {}: {e}", evpath.display());
        std::process::exit(2);
    }
    println!(
        "{} tier={} seed={} runs={} events={} states={} wall={:.1}s digest={} violations={} known={}",
        rep.property,
        rep.tier.name(),
        rep.seed,
        stats.runs,
        stats.events,
        stats.states.len(),
        wall_s,
        stats.digest.hex(),
        lines_v.len(),
        lines_k.len()
    );
    Outcome { violations: lines_v.len() as u64, known: lines_k.len() as u64 }
}

/// `digests` mode: run the batch and write one JSON line per run (digest + C11 findings) to `out_path`.
pub fn write_digests(rep: &Report, scenarios: &[Box<dyn Scenario>], out_path: &Path) -> i32 {
    let mut stats = BatchStats { keep_run_digests: true, ..Default::default() };
    run_batch(scenarios, rep.seed, rep.tier, &mut stats, rep.property, &rep.root);
    let mut viols: BTreeMap<(&str, u64), Vec<&Found>> = BTreeMap::new();
    for f in &stats.found {
        viols.entry((f.scenario, f.run)).or_default().push(f);
    }
    let mut s = String::new();
    s.push_str(&json!({"fingerprint": env!("CBSIM_SRC_FINGERPRINT")}).to_string());
    s.push('\n');
    for (sc, run, d) in &stats.run_digests {
        let v: Vec<Value> = viols
            .get(&(*sc, *run))
            .map(|fs| fs.iter().map(|f| json!({"check_id": f.viol.check_id, "signature": f.viol.signature, "detail": f.viol.detail, "plan": f.plan})).collect())
            .unwrap_or_default();
        s.push_str(&json!({"s": sc, "r": run, "d": [d.0, d.1], "v": v}).to_string());
        s.push('\n');
    }
    match std::fs::write(out_path, s) {
        Ok(()) => 0,
        Err(e) => {
            eprintln!("harness error: cannot write {}: {e}", out_path.display());
            2
        }
    }
}

/// C11: execute the same plans in the second build profile (a child process running the `dbg` binary)
/// and merge what it saw: its own C11 findings, and any run whose event-log digest differs.
fn second_profile(rep: &Report, scenarios: &[Box<dyn Scenario>], stats: &mut BatchStats) -> Result<(u64, u64), String> {
    let Ok(bin) = std::env::var("CBSIM_DBG_BIN") else {
        return Err("CBSIM_DBG_BIN is not set (the check script builds the dbg profile and sets it)".into());
    };
    let tmp = std::env::temp_dir().join(format!("cbsim-dbg-digests-{}-{}.jsonl", std::process::id(), rep.seed));
    let status = std::process::Command::new(&bin)
        .args(["digests", rep.property, "--tier", rep.tier.name(), "--seed", &rep.seed.to_string(), "--root"])
        .arg(&rep.root)
        .arg("--out")
        .arg(&tmp)
        .stdout(std::process::Stdio::null())
        .status()
        .map_err(|e| format!("cannot run {bin}: {e}"))?;
    if !status.success() {
        let _ = std::fs::remove_file(&tmp);
        return Err(format!("{bin} digests exited with {status}"));
    }
    let text = std::fs::read_to_string(&tmp).map_err(|e| e.to_string())?;
    let _ = std::fs::remove_file(&tmp);
    let mine: BTreeMap<(&str, u64), (u64, u64)> = stats.run_digests.iter().map(|(s, r, d)| ((*s, *r), *d)).collect();
    let mut compared = 0u64;
    let mut diverged = 0u64;
    let mut fingerprint_seen = false;
    for line in text.lines() {
        let v: Value = serde_json::from_str(line).map_err(|e| format!("bad digest line: {e}"))?;
        if let Some(fp) = v["fingerprint"].as_str() {
            fingerprint_seen = true;
            if fp != env!("CBSIM_SRC_FINGERPRINT") {
                return Err(format!(
                    "the two profile binaries were built from different sources (this process {}, {} {}); rebuild both through ./check — comparing them would say nothing about the code under test",
                    env!("CBSIM_SRC_FINGERPRINT"),
                    bin,
                    fp
                ));
            }
            continue;
        }
        if !fingerprint_seen {
            return Err(format!("{bin} did not report a source fingerprint (stale binary); rebuild both profiles through ./check"));
        }
        let (Some(sn), Some(run)) = (v["s"].as_str(), v["r"].as_u64()) else { continue };
        let Some(sc) = scenarios.iter().find(|s| s.name() == sn) else { continue };
        let d = (v["d"][0].as_u64().unwrap_or(0), v["d"][1].as_u64().unwrap_or(0));
        compared += 1;
        let same = mine.get(&(sc.name(), run)) == Some(&d);
        let mut explained = false;
        for f in v["v"].as_array().cloned().unwrap_or_default() {
            let cid = f["check_id"].as_str().unwrap_or("").to_string();
            if !cid.starts_with("C11/") {
                continue;
            }
            // present in the release run too? then it is already in stats.found
            let sig = f["signature"].as_str().unwrap_or("").to_string();
            let already = stats.found.iter().any(|x| x.scenario == sc.name() && x.run == run && x.viol.check_id == cid && x.viol.signature == sig);
            if !already {
                explained = true;
                let mut plan = f["plan"].clone();
                if plan.is_null() {
                    plan = sc.plan_json(rep.seed, rep.tier, run);
                }
                stats.found.push(Found {
                    scenario: sc.name(),
                    run,
                    viol: Viol { check_id: cid, signature: format!("profile=dbg:{}", sig), detail: format!("[debug-assertion/overflow-checked profile only] {}", f["detail"].as_str().unwrap_or("")), plan: None },
                    plan: json!({"profile": "dbg", "plan": plan}),
                });
            }
        }
        if !same {
            diverged += 1;
            if !explained {
                stats.found.push(Found {
                    scenario: sc.name(),
                    run,
                    viol: Viol {
                        check_id: "C11/profile-divergence".into(),
                        signature: sc.name().to_string(),
                        detail: format!("event log of run {} of {} differs between the release and the dbg profile (release {:?}, dbg {:?})", run, sc.name(), mine.get(&(sc.name(), run)), d),
                        plan: None,
                    },
                    plan: json!({"profile": "dbg", "plan": sc.plan_json(rep.seed, rep.tier, run)}),
                });
            }
        }
    }
    Ok((compared, diverged))
}

pub fn run_property(mut rep: Report, scenarios: Vec<Box<dyn Scenario>>) -> i32 {
    let known = match Known::load(&rep.root) {
        Ok(k) => k,
        Err(e) => {
            eprintln!("harness error: {e}");
            return 2;
        }
    };
    let t0 = Instant::now();
    let two_profiles = rep.property == "C11";
    let mut stats = BatchStats { keep_run_digests: two_profiles, ..Default::default() };
    run_batch(&scenarios, rep.seed, rep.tier, &mut stats, rep.property, &rep.root);
    if two_profiles {
        match second_profile(&rep, &scenarios, &mut stats) {
            Ok((compared, diverged)) => {
                rep.extra.insert("profiles".into(), json!({"release": "opt-level 3, no debug assertions, no overflow checks (this process)", "dbg": "opt-level 1, debug assertions, overflow checks (child process, same plans)", "runs_compared": compared, "runs_with_different_event_log": diverged}));
            }
            Err(e) => {
                eprintln!("harness error: {e}");
                return 2;
            }
        }
    }
    let wall = t0.elapsed().as_secs_f64();
    let out = finish(&rep, &scenarios, &stats, &known, wall);
    if out.violations > 0 { 1 } else { 0 }
}

/// Replay a file written by `finish`.
pub fn replay_file(path: &Path, property: &'static str, scenarios: &[Box<dyn Scenario>], root: &Path) -> i32 {
    let Ok(s) = std::fs::read_to_string(path) else {
        eprintln!("harness error: cannot read {}", path.display());
        return 2;
    };
    let Ok(doc) = serde_json::from_str::<Value>(&s) else {
        eprintln!("harness error: cannot parse {}", path.display());
        return 2;
    };
    let scn = doc["scenario"].as_str().unwrap_or("");
    let Some(sc) = scenarios.iter().find(|s| s.name() == scn) else {
        eprintln!("harness error: unknown scenario {scn:?} for {property}");
        return 2;
    };
    let known = match Known::load(root) {
        Ok(k) => k,
        Err(e) => {
            eprintln!("harness error: {e}");
            return 2;
        }
    };
    // findings of the second profile carry {"profile":"dbg","plan":..}: hand over to the dbg binary
    let mut plan = doc["plan"].clone();
    if plan.get("profile").and_then(|p| p.as_str()) == Some("dbg") {
        if !cfg!(debug_assertions) {
            let Ok(bin) = std::env::var("CBSIM_DBG_BIN") else {
                eprintln!("harness error: this replay needs the dbg profile; run it through ./check C11 --replay <file>");
                return 2;
            };
            let st = std::process::Command::new(bin).arg("replay").arg(property).arg(path).arg("--root").arg(root).status();
            return st.ok().and_then(|s| s.code()).unwrap_or(2);
        }
        plan = plan["plan"].clone();
    }
    let mut out = RunOut::default();
    if let Err(e) = replay_caught(sc.as_ref(), &plan, &mut out) {
        eprintln!("harness error: {e}");
        return 2;
    }
    let mut bad = 0;
    for v in &out.viols {
        if !v.check_id.starts_with(property) {
            continue;
        }
        if let Some(k) = known.matches(property, v) {
            println!("KNOWN-FINDING: property={} {} [{} {}] replay={}", property, k.what, v.check_id, v.signature, path.display());
        } else {
            println!(
                "VIOLATION property={} replay={} check={} signature={} detail={}",
                property,
                path.display(),
                v.check_id,
                v.signature,
                v.detail.replace('\n', " ")
            );
            bad += 1;
        }
    }
    println!("replay {} events={} digest={} violations={}", path.display(), out.events, out.digest.hex(), out.viols.len());
    if bad > 0 { 1 } else { 0 }
}
