//! Panic / progress monitor: every library call of a simulated run goes through `guard`.

use std::cell::RefCell;
use std::panic::{self, AssertUnwindSafe};
use std::sync::Once;
use std::sync::atomic::{AtomicU64, Ordering};

/// Payload used by the infallible RNG front-end when the finite tape ends.
/// The monitor classifies it as "budget exhausted", never as a library panic.
pub struct TapeExhausted;

/// Payload used by the RNG device when a library call keeps invoking it after 10 000 consecutive
/// errors: the call is not going to return (reported as C11/non-termination).
pub struct RngLivelock;
pub const LIVELOCK_MARK: &str = "<rng-livelock>";

#[derive(Clone, Debug, PartialEq, Eq)]
pub struct PanicInfo {
    /// `file:line` with the /repo prefix stripped (no addresses, no thread ids).
    pub location: String,
    pub message: String,
}

thread_local! {
    static LAST_PANIC: RefCell<Option<PanicInfo>> = const { RefCell::new(None) };
    static IN_GUARD: RefCell<u32> = const { RefCell::new(0) };
    static UNGUARDED: RefCell<Option<(String, String)>> = const { RefCell::new(None) };
}

/// Location (raw path:line) and message of the last panic that happened outside `guard` on this thread.
pub fn take_unguarded() -> Option<(String, String)> {
    UNGUARDED.with(|p| p.borrow_mut().take())
}

/// A panic location belongs to the library under test iff it is an absolute path (path dependency outside this
/// crate) that is neither the cargo registry nor the standard library.
pub fn is_library_location(raw: &str) -> bool {
    raw.starts_with('/')
        && !raw.starts_with(concat!(env!("CARGO_MANIFEST_DIR"), "/"))
        && !raw.contains("/.cargo/registry/")
        && !raw.starts_with("/rustc/")
        && !raw.contains("/rustlib/")
}

pub fn strip_location(raw: &str) -> String {
    match raw.find("/src/") {
        Some(i) if is_library_location(raw) => raw[i + 1..].to_string(),
        _ => raw.to_string(),
    }
}

static INSTALL: Once = Once::new();

pub fn install_hook() {
    INSTALL.call_once(|| {
        let default = panic::take_hook();
        panic::set_hook(Box::new(move |info| {
            let inside = IN_GUARD.with(|g| *g.borrow() > 0);
            if !inside {
                // outside `guard`: remember where it happened (the runner decides whether it is the library's or the
                // simulator's own code) and let the default hook print it
                let raw = info.location().map(|l| format!("{}:{}", l.file(), l.line())).unwrap_or_default();
                let msg = if let Some(s) = info.payload().downcast_ref::<&str>() {
                    (*s).to_string()
                } else if let Some(s) = info.payload().downcast_ref::<String>() {
                    s.clone()
                } else {
                    "<non-string payload>".to_string()
                };
                UNGUARDED.with(|p| *p.borrow_mut() = Some((raw, msg)));
                default(info);
                return;
            }
            let location = info
                .location()
                .map(|l| {
                    let f = l.file();
                    // the library under test: crate-relative path wherever the tree lives (/repo or a scratch worktree)
                    let stripped = strip_location(f);
                    let f = stripped.as_str();
                    // registry paths: keep crate-relative tail only
                    let f = match f.find("/registry/src/") {
                        Some(p) => {
                            let tail = &f[p + "/registry/src/".len()..];
                            tail.split_once('/').map(|x| x.1).unwrap_or(tail)
                        }
                        None => f,
                    };
                    format!("{}:{}", f, l.line())
                })
                .unwrap_or_else(|| "?".into());
            let message = if let Some(s) = info.payload().downcast_ref::<&str>() {
                (*s).to_string()
            } else if let Some(s) = info.payload().downcast_ref::<String>() {
                s.clone()
            } else if info.payload().downcast_ref::<TapeExhausted>().is_some() {
                "<tape exhausted>".to_string()
            } else if info.payload().downcast_ref::<RngLivelock>().is_some() {
                LIVELOCK_MARK.to_string()
            } else {
                "<non-string payload>".to_string()
            };
            LAST_PANIC.with(|p| *p.borrow_mut() = Some(PanicInfo { location, message }));
        }));
    });
}

#[derive(Clone, Debug, PartialEq, Eq)]
pub enum Guarded<T> {
    Done(T),
    Panic(PanicInfo),
    /// Infallible RNG ran off its finite tape.
    Budget,
}

impl<T> Guarded<T> {
    pub fn is_panic(&self) -> bool {
        matches!(self, Guarded::Panic(_))
    }
    pub fn done(self) -> Option<T> {
        match self {
            Guarded::Done(t) => Some(t),
            _ => None,
        }
    }
}

/// Progress heartbeat for the watchdog (real clock, never feeds back into a run).
pub static HEARTBEAT: AtomicU64 = AtomicU64::new(0);

pub fn guard<T>(f: impl FnOnce() -> T) -> Guarded<T> {
    install_hook();
    HEARTBEAT.fetch_add(1, Ordering::Relaxed);
    IN_GUARD.with(|g| *g.borrow_mut() += 1);
    LAST_PANIC.with(|p| *p.borrow_mut() = None);
    let r = panic::catch_unwind(AssertUnwindSafe(f));
    IN_GUARD.with(|g| *g.borrow_mut() -= 1);
    match r {
        Ok(v) => Guarded::Done(v),
        Err(payload) => {
            if payload.downcast_ref::<TapeExhausted>().is_some() {
                return Guarded::Budget;
            }
            if payload.downcast_ref::<RngLivelock>().is_some() {
                let _ = LAST_PANIC.with(|p| p.borrow_mut().take());
                return Guarded::Panic(PanicInfo {
                    location: LIVELOCK_MARK.into(),
                    message: format!("{} the call kept invoking the RNG after it had returned 10000 consecutive errors — it does not terminate", LIVELOCK_MARK),
                });
            }
            let info = LAST_PANIC.with(|p| p.borrow_mut().take()).unwrap_or(PanicInfo {
                location: "?".into(),
                message: "<unknown>".into(),
            });
            Guarded::Panic(info)
        }
    }
}
