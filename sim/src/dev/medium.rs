//! SimMedium — a byte store between an encoder and a decoder, with storage-style faults applied to
//! what was written before it is read back.

use serde::{Deserialize, Serialize};

#[derive(Clone, Debug, Serialize, Deserialize, PartialEq, Eq)]
pub enum Fault {
    /// torn / short write: only the first k bytes survive
    Truncate(usize),
    /// lost write: the last k bytes read back as zero
    ZeroTail(usize),
    FlipBit(usize),
    DropByte(usize),
    DupByte(usize),
    /// stale trailing data
    Append(Vec<u8>),
    Prepend(u8),
    /// add delta to the byte at index i (corrupt a length prefix)
    AddAt(usize, i16),
    /// overwrite byte i
    SetAt(usize, u8),
    /// insert byte b at index i
    InsertAt(usize, u8),
}

impl Fault {
    pub fn kind(&self) -> &'static str {
        match self {
            Fault::Truncate(_) => "truncate",
            Fault::ZeroTail(_) => "zero-tail",
            Fault::FlipBit(_) => "flip-bit",
            Fault::DropByte(_) => "drop-byte",
            Fault::DupByte(_) => "dup-byte",
            Fault::Append(_) => "append",
            Fault::Prepend(_) => "prepend",
            Fault::AddAt(..) => "len-field",
            Fault::SetAt(..) => "set-byte",
            Fault::InsertAt(..) => "insert-byte",
        }
    }
    /// Apply; returns false if the fault could not fire (index out of range) — then it is not counted.
    pub fn apply(&self, b: &mut Vec<u8>) -> bool {
        match self {
            Fault::Truncate(k) => {
                if *k < b.len() {
                    b.truncate(*k);
                    true
                } else {
                    false
                }
            }
            Fault::ZeroTail(k) => {
                if *k == 0 || *k > b.len() {
                    return false;
                }
                let n = b.len();
                let changed = b[n - k..].iter().any(|&x| x != 0);
                b[n - k..].fill(0);
                changed
            }
            Fault::FlipBit(i) => {
                if i / 8 < b.len() {
                    b[i / 8] ^= 1 << (i % 8);
                    true
                } else {
                    false
                }
            }
            Fault::DropByte(i) => {
                if *i < b.len() {
                    b.remove(*i);
                    true
                } else {
                    false
                }
            }
            Fault::DupByte(i) => {
                if *i < b.len() {
                    let x = b[*i];
                    b.insert(*i, x);
                    true
                } else {
                    false
                }
            }
            Fault::Append(x) => {
                b.extend_from_slice(x);
                !x.is_empty()
            }
            Fault::Prepend(x) => {
                b.insert(0, *x);
                true
            }
            Fault::AddAt(i, d) => {
                if *i < b.len() && *d != 0 {
                    b[*i] = (b[*i] as i16).wrapping_add(*d) as u8;
                    true
                } else {
                    false
                }
            }
            Fault::SetAt(i, v) => {
                if *i < b.len() && b[*i] != *v {
                    b[*i] = *v;
                    true
                } else {
                    false
                }
            }
            Fault::InsertAt(i, v) => {
                if *i <= b.len() {
                    b.insert(*i, *v);
                    true
                } else {
                    false
                }
            }
        }
    }
}

pub fn hex(b: &[u8]) -> String {
    let mut s = String::with_capacity(b.len() * 2);
    for x in b {
        s.push_str(&format!("{:02x}", x));
    }
    s
}

pub fn unhex(s: &str) -> Option<Vec<u8>> {
    if s.len() % 2 != 0 {
        return None;
    }
    (0..s.len() / 2).map(|i| u8::from_str_radix(s.get(2 * i..2 * i + 2)?, 16).ok()).collect()
}

/// serde helper: Vec<u8> as a hex string (keeps replay files readable)
pub mod hexbytes {
    use serde::{Deserialize, Deserializer, Serializer};
    pub fn serialize<S: Serializer>(b: &Vec<u8>, s: S) -> Result<S::Ok, S::Error> {
        s.serialize_str(&super::hex(b))
    }
    pub fn deserialize<'de, D: Deserializer<'de>>(d: D) -> Result<Vec<u8>, D::Error> {
        let s = String::deserialize(d)?;
        super::unhex(&s).ok_or_else(|| serde::de::Error::custom("bad hex"))
    }
}
