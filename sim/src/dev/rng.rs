//! SimRng — the only randomness the library under test ever sees.
//!
//! A byte tape made of segments. `try_next_u32`, `try_next_u64`, `try_fill_bytes(n)` consume
//! 4, 8, n bytes little-endian from the same cursor. Faults: fail at call k, fail at byte b,
//! exhaustion of a finite tape.

use crate::monitor::{RngLivelock, TapeExhausted};
use crate::prng::Xoshiro;
use rand_core::{RngCore, TryRngCore};
use serde::{Deserialize, Serialize};
use std::fmt;

#[derive(Clone, Debug, Serialize, Deserialize, PartialEq, Eq)]
pub enum Seg {
    /// xoshiro256** bytes
    Uniform { seed: u64, len: u64 },
    /// one byte value repeated
    Const { byte: u8, len: u64 },
    /// explicit bytes
    Script { bytes: Vec<u8> },
    /// explicit 64-bit words (little-endian on the tape)
    Words { words: Vec<u64> },
    /// explicit words repeated `times`
    Repeat { words: Vec<u64>, times: u64 },
}

impl Seg {
    pub fn len(&self) -> u64 {
        match self {
            Seg::Uniform { len, .. } | Seg::Const { len, .. } => *len,
            Seg::Script { bytes } => bytes.len() as u64,
            Seg::Words { words } => words.len() as u64 * 8,
            Seg::Repeat { words, times } => words.len() as u64 * 8 * times,
        }
    }
    pub fn class(&self) -> &'static str {
        match self {
            Seg::Uniform { .. } => "uniform",
            Seg::Const { byte: 0, .. } => "zeros",
            Seg::Const { byte: 0xff, .. } => "ones",
            Seg::Const { .. } => "const",
            Seg::Script { .. } => "script",
            Seg::Words { .. } => "words",
            Seg::Repeat { .. } => "repeat",
        }
    }
}

#[derive(Clone, Debug, Default, Serialize, Deserialize, PartialEq, Eq)]
pub struct TapePlan {
    pub segs: Vec<Seg>,
    /// the k-th call (0-based) returns Err and consumes nothing (fallible front-end only)
    #[serde(default, skip_serializing_if = "Option::is_none")]
    pub fail_at_call: Option<u64>,
    /// the call that would read tape byte b fails instead
    #[serde(default, skip_serializing_if = "Option::is_none")]
    pub fail_at_byte: Option<u64>,
}

impl TapePlan {
    pub fn total_len(&self) -> u64 {
        self.segs.iter().map(|s| s.len()).fold(0u64, |a, b| a.saturating_add(b))
    }
    pub fn class(&self) -> String {
        let mut v: Vec<&str> = self.segs.iter().map(|s| s.class()).collect();
        v.dedup();
        if v.len() > 3 {
            v.truncate(3);
            v.push("…");
        }
        v.join("+")
    }
    pub fn uniform(seed: u64, len: u64) -> Self {
        TapePlan { segs: vec![Seg::Uniform { seed, len }], ..Default::default() }
    }
}

pub const FAULT_AT_CALL: u32 = 0xFA17_0001;
pub const FAULT_AT_BYTE: u32 = 0xFA17_0002;
pub const FAULT_EXHAUSTED: u32 = 0xFA17_0003;

#[derive(Clone, Copy, Debug, PartialEq, Eq)]
pub struct SimRngFault {
    pub id: u32,
    pub call: u64,
}

impl fmt::Display for SimRngFault {
    fn fmt(&self, f: &mut fmt::Formatter<'_>) -> fmt::Result {
        write!(f, "simulated RNG fault {:#x} at call {}", self.id, self.call)
    }
}
impl std::error::Error for SimRngFault {}

#[derive(Clone, Copy, Debug, PartialEq, Eq)]
pub enum Method {
    U32,
    U64,
    Fill,
}

#[derive(Clone, Debug, PartialEq, Eq)]
pub struct RngEvent {
    pub method: Method,
    pub len: u32,
    pub fault: Option<u32>,
}

pub struct Tape {
    segs: Vec<Seg>,
    seg: usize,
    off: u64,
    gen_: Option<Xoshiro>,
    genbuf: [u8; 8],
    genpos: usize,
    fail_at_call: Option<u64>,
    fail_at_byte: Option<u64>,
    pub calls: u64,
    pub bytes: u64,
    pub faults_fired: Vec<SimRngFault>,
    pub events: Vec<RngEvent>,
    pub events_dropped: u64,
    pub by_method: [u64; 3],
    remaining: u64,
    /// consecutive calls answered with an error (the library keeps calling a failing RNG)
    consec_faults: u64,
}

/// Liveness bound of the device itself: a library call that keeps invoking the RNG after this many
/// consecutive errors is not going to return.
pub const LIVELOCK_BOUND: u64 = 10_000;

const MAX_EVENTS: usize = 256;

impl Tape {
    pub fn new(plan: &TapePlan) -> Self {
        let mut t = Tape {
            segs: plan.segs.clone(),
            seg: 0,
            off: 0,
            gen_: None,
            genbuf: [0; 8],
            genpos: 8,
            fail_at_call: plan.fail_at_call,
            fail_at_byte: plan.fail_at_byte,
            calls: 0,
            bytes: 0,
            faults_fired: Vec::new(),
            events: Vec::new(),
            events_dropped: 0,
            by_method: [0; 3],
            remaining: plan.total_len(),
            consec_faults: 0,
        };
        t.enter_seg();
        t
    }

    fn enter_seg(&mut self) {
        while self.seg < self.segs.len() && self.segs[self.seg].len() == 0 {
            self.seg += 1;
        }
        self.off = 0;
        self.genpos = 8;
        self.gen_ = match self.segs.get(self.seg) {
            Some(Seg::Uniform { seed, .. }) => Some(Xoshiro::new(*seed)),
            _ => None,
        };
    }

    fn next_byte(&mut self) -> u8 {
        // caller guarantees remaining > 0
        let b = match &self.segs[self.seg] {
            Seg::Uniform { .. } => {
                if self.genpos == 8 {
                    self.genbuf = self.gen_.as_mut().unwrap().next().to_le_bytes();
                    self.genpos = 0;
                }
                let b = self.genbuf[self.genpos];
                self.genpos += 1;
                b
            }
            Seg::Const { byte, .. } => *byte,
            Seg::Script { bytes } => bytes[self.off as usize],
            Seg::Words { words } => words[(self.off / 8) as usize].to_le_bytes()[(self.off % 8) as usize],
            Seg::Repeat { words, .. } => {
                let o = self.off % (words.len() as u64 * 8);
                words[(o / 8) as usize].to_le_bytes()[(o % 8) as usize]
            }
        };
        self.off += 1;
        self.remaining -= 1;
        if self.off >= self.segs[self.seg].len() {
            self.seg += 1;
            self.enter_seg();
        }
        b
    }

    fn record(&mut self, method: Method, len: usize, fault: Option<u32>) {
        self.by_method[method as usize] += 1;
        if self.events.len() < MAX_EVENTS {
            self.events.push(RngEvent { method, len: len as u32, fault });
        } else {
            self.events_dropped += 1;
        }
    }

    /// Read `buf.len()` bytes or fail without consuming anything.
    fn read(&mut self, method: Method, buf: &mut [u8]) -> Result<(), SimRngFault> {
        let call = self.calls;
        self.calls += 1;
        let n = buf.len() as u64;
        let fault = if self.fail_at_call == Some(call) {
            Some(FAULT_AT_CALL)
        } else if matches!(self.fail_at_byte, Some(b) if b >= self.bytes && b < self.bytes + n.max(1)) {
            Some(FAULT_AT_BYTE)
        } else if n > self.remaining {
            Some(FAULT_EXHAUSTED)
        } else {
            None
        };
        if let Some(id) = fault {
            let f = SimRngFault { id, call };
            if self.faults_fired.len() < 64 {
                self.faults_fired.push(f);
            }
            self.record(method, buf.len(), Some(id));
            self.consec_faults += 1;
            if self.consec_faults > LIVELOCK_BOUND {
                std::panic::panic_any(RngLivelock);
            }
            return Err(f);
        }
        self.consec_faults = 0;
        for b in buf.iter_mut() {
            *b = self.next_byte();
        }
        self.bytes += n;
        self.record(method, buf.len(), None);
        Ok(())
    }

    pub fn remaining(&self) -> u64 {
        self.remaining
    }

    /// Advance the cursor by `n` bytes without recording a call (used to start a fresh tape at the
    /// position another one had reached).
    pub fn skip(&mut self, n: u64) {
        let n = n.min(self.remaining);
        for _ in 0..n {
            let _ = self.next_byte();
        }
    }
}

/// Fallible front-end.
pub struct SimTryRng<'a>(pub &'a mut Tape);

impl TryRngCore for SimTryRng<'_> {
    type Error = SimRngFault;
    fn try_next_u32(&mut self) -> Result<u32, SimRngFault> {
        let mut b = [0u8; 4];
        self.0.read(Method::U32, &mut b)?;
        Ok(u32::from_le_bytes(b))
    }
    fn try_next_u64(&mut self) -> Result<u64, SimRngFault> {
        let mut b = [0u8; 8];
        self.0.read(Method::U64, &mut b)?;
        Ok(u64::from_le_bytes(b))
    }
    fn try_fill_bytes(&mut self, dst: &mut [u8]) -> Result<(), SimRngFault> {
        self.0.read(Method::Fill, dst)
    }
}

/// Infallible front-end: any fault (only exhaustion is meaningful here) unwinds with the
/// `TapeExhausted` sentinel which the monitor reports as `Budget`.
pub struct SimRng<'a>(pub &'a mut Tape);

impl RngCore for SimRng<'_> {
    fn next_u32(&mut self) -> u32 {
        let mut b = [0u8; 4];
        if self.0.read(Method::U32, &mut b).is_err() {
            std::panic::panic_any(TapeExhausted);
        }
        u32::from_le_bytes(b)
    }
    fn next_u64(&mut self) -> u64 {
        let mut b = [0u8; 8];
        if self.0.read(Method::U64, &mut b).is_err() {
            std::panic::panic_any(TapeExhausted);
        }
        u64::from_le_bytes(b)
    }
    fn fill_bytes(&mut self, dst: &mut [u8]) {
        if self.0.read(Method::Fill, dst).is_err() {
            std::panic::panic_any(TapeExhausted);
        }
    }
}
