pub mod rng;
