pub mod der_reader;
pub mod der_writer;
pub mod medium;
pub mod rng;
pub mod serde_fmt;
pub mod sink;
