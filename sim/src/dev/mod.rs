pub mod der_writer;
pub mod medium;
pub mod rng;
