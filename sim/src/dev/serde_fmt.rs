//! SimSerializer / SimDeserializer — a minimal self-describing serde format owned by the simulator.
//!
//! Tokens: Bytes, Str, U64, None, Some. Configurable: `is_human_readable`, how byte strings and
//! strings are delivered to visitors, and faults: error at the k-th entry point, end of input.

use serde::de::{self, DeserializeSeed, Visitor};
use serde::ser::{self, Impossible};
use serde::{Deserialize, Serialize};
use std::fmt;

#[derive(Clone, Debug, PartialEq, Eq, Serialize, Deserialize)]
pub enum Tok {
    Bytes(#[serde(with = "crate::dev::medium::hexbytes")] Vec<u8>),
    Str(String),
    U64(u64),
    None,
    Some,
}

impl Tok {
    pub fn kind(&self) -> &'static str {
        match self {
            Tok::Bytes(_) => "bytes",
            Tok::Str(_) => "str",
            Tok::U64(_) => "u64",
            Tok::None => "none",
            Tok::Some => "some",
        }
    }
}

pub const INJECTED: &str = "<injected device fault>";

#[derive(Clone, Debug, PartialEq, Eq)]
pub struct SimSerdeError(pub String);

impl SimSerdeError {
    pub fn is_injected(&self) -> bool {
        self.0 == INJECTED
    }
}

impl fmt::Display for SimSerdeError {
    fn fmt(&self, f: &mut fmt::Formatter<'_>) -> fmt::Result {
        f.write_str(&self.0)
    }
}
impl std::error::Error for SimSerdeError {}
impl ser::Error for SimSerdeError {
    fn custom<T: fmt::Display>(msg: T) -> Self {
        SimSerdeError(msg.to_string())
    }
}
impl de::Error for SimSerdeError {
    fn custom<T: fmt::Display>(msg: T) -> Self {
        SimSerdeError(msg.to_string())
    }
}

// ---------------------------------------------------------------------------------------------

pub struct SimSer {
    pub human: bool,
    pub toks: Vec<Tok>,
    pub calls: usize,
    pub fail_at_call: Option<usize>,
    pub fault_fired: bool,
}

impl SimSer {
    pub fn new(human: bool, fail_at_call: Option<usize>) -> Self {
        SimSer { human, toks: Vec::new(), calls: 0, fail_at_call, fault_fired: false }
    }
    fn entry(&mut self) -> Result<(), SimSerdeError> {
        let c = self.calls;
        self.calls += 1;
        if self.fail_at_call == Some(c) {
            self.fault_fired = true;
            return Err(SimSerdeError(INJECTED.into()));
        }
        Ok(())
    }
}

macro_rules! unsupported_ser {
    ($($name:ident($($arg:ty),*);)*) => {
        $( fn $name(self, $(_: $arg),*) -> Result<(), SimSerdeError> {
            Err(SimSerdeError(concat!("sim format: unsupported ", stringify!($name)).into()))
        } )*
    };
}

impl<'a> ser::Serializer for &'a mut SimSer {
    type Ok = ();
    type Error = SimSerdeError;
    type SerializeSeq = Impossible<(), SimSerdeError>;
    type SerializeTuple = Impossible<(), SimSerdeError>;
    type SerializeTupleStruct = Impossible<(), SimSerdeError>;
    type SerializeTupleVariant = Impossible<(), SimSerdeError>;
    type SerializeMap = Impossible<(), SimSerdeError>;
    type SerializeStruct = Impossible<(), SimSerdeError>;
    type SerializeStructVariant = Impossible<(), SimSerdeError>;

    fn is_human_readable(&self) -> bool {
        self.human
    }
    fn serialize_bytes(self, v: &[u8]) -> Result<(), SimSerdeError> {
        self.entry()?;
        self.toks.push(Tok::Bytes(v.to_vec()));
        Ok(())
    }
    fn serialize_str(self, v: &str) -> Result<(), SimSerdeError> {
        self.entry()?;
        self.toks.push(Tok::Str(v.to_string()));
        Ok(())
    }
    fn serialize_u64(self, v: u64) -> Result<(), SimSerdeError> {
        self.entry()?;
        self.toks.push(Tok::U64(v));
        Ok(())
    }
    fn serialize_u32(self, v: u32) -> Result<(), SimSerdeError> {
        self.serialize_u64(v as u64)
    }
    fn serialize_none(self) -> Result<(), SimSerdeError> {
        self.entry()?;
        self.toks.push(Tok::None);
        Ok(())
    }
    fn serialize_some<T: ?Sized + Serialize>(self, value: &T) -> Result<(), SimSerdeError> {
        self.entry()?;
        self.toks.push(Tok::Some);
        value.serialize(self)
    }
    fn serialize_newtype_struct<T: ?Sized + Serialize>(self, _name: &'static str, value: &T) -> Result<(), SimSerdeError> {
        value.serialize(self)
    }
    unsupported_ser! {
        serialize_bool(bool); serialize_i8(i8); serialize_i16(i16); serialize_i32(i32); serialize_i64(i64);
        serialize_u8(u8); serialize_u16(u16); serialize_f32(f32); serialize_f64(f64); serialize_char(char);
        serialize_unit(); serialize_unit_struct(&'static str); serialize_unit_variant(&'static str, u32, &'static str);
    }
    fn serialize_newtype_variant<T: ?Sized + Serialize>(self, _: &'static str, _: u32, _: &'static str, _: &T) -> Result<(), SimSerdeError> {
        Err(SimSerdeError("sim format: unsupported newtype variant".into()))
    }
    fn serialize_seq(self, _: Option<usize>) -> Result<Self::SerializeSeq, SimSerdeError> {
        Err(SimSerdeError("sim format: unsupported seq".into()))
    }
    fn serialize_tuple(self, _: usize) -> Result<Self::SerializeTuple, SimSerdeError> {
        Err(SimSerdeError("sim format: unsupported tuple".into()))
    }
    fn serialize_tuple_struct(self, _: &'static str, _: usize) -> Result<Self::SerializeTupleStruct, SimSerdeError> {
        Err(SimSerdeError("sim format: unsupported tuple struct".into()))
    }
    fn serialize_tuple_variant(self, _: &'static str, _: u32, _: &'static str, _: usize) -> Result<Self::SerializeTupleVariant, SimSerdeError> {
        Err(SimSerdeError("sim format: unsupported tuple variant".into()))
    }
    fn serialize_map(self, _: Option<usize>) -> Result<Self::SerializeMap, SimSerdeError> {
        Err(SimSerdeError("sim format: unsupported map".into()))
    }
    fn serialize_struct(self, _: &'static str, _: usize) -> Result<Self::SerializeStruct, SimSerdeError> {
        Err(SimSerdeError("sim format: unsupported struct".into()))
    }
    fn serialize_struct_variant(self, _: &'static str, _: u32, _: &'static str, _: usize) -> Result<Self::SerializeStructVariant, SimSerdeError> {
        Err(SimSerdeError("sim format: unsupported struct variant".into()))
    }
}

// ---------------------------------------------------------------------------------------------

#[derive(Clone, Copy, Debug, PartialEq, Eq, Serialize, Deserialize)]
pub enum Delivery {
    /// visit_bytes / visit_str (transient)
    Transient,
    /// visit_borrowed_bytes / visit_borrowed_str
    Borrowed,
    /// visit_byte_buf / visit_string
    Owned,
}

pub struct SimDe<'de> {
    pub toks: &'de [Tok],
    pub pos: usize,
    pub human: bool,
    pub bytes_style: Delivery,
    pub str_style: Delivery,
    pub calls: usize,
    pub fail_at_call: Option<usize>,
    pub fault_fired: bool,
    pub hit_eof: bool,
}

impl<'de> SimDe<'de> {
    pub fn new(toks: &'de [Tok], human: bool, bytes_style: Delivery, str_style: Delivery, fail_at_call: Option<usize>) -> Self {
        SimDe { toks, pos: 0, human, bytes_style, str_style, calls: 0, fail_at_call, fault_fired: false, hit_eof: false }
    }
    fn entry(&mut self) -> Result<(), SimSerdeError> {
        let c = self.calls;
        self.calls += 1;
        if self.fail_at_call == Some(c) {
            self.fault_fired = true;
            return Err(SimSerdeError(INJECTED.into()));
        }
        Ok(())
    }
    fn next(&mut self) -> Result<&'de Tok, SimSerdeError> {
        match self.toks.get(self.pos) {
            Some(t) => {
                self.pos += 1;
                Ok(t)
            }
            None => {
                self.hit_eof = true;
                Err(SimSerdeError("sim format: end of input".into()))
            }
        }
    }
    /// Self-describing delivery: the visitor method is chosen by the token actually stored.
    fn deliver<V: Visitor<'de>>(&mut self, visitor: V) -> Result<V::Value, SimSerdeError> {
        match self.next()? {
            Tok::Bytes(b) => match self.bytes_style {
                Delivery::Transient => {
                    let tmp = b.clone();
                    visitor.visit_bytes(&tmp)
                }
                Delivery::Borrowed => visitor.visit_borrowed_bytes(b),
                Delivery::Owned => visitor.visit_byte_buf(b.clone()),
            },
            Tok::Str(s) => match self.str_style {
                Delivery::Transient => {
                    let tmp = s.clone();
                    visitor.visit_str(&tmp)
                }
                Delivery::Borrowed => visitor.visit_borrowed_str(s),
                Delivery::Owned => visitor.visit_string(s.clone()),
            },
            Tok::U64(v) => visitor.visit_u64(*v),
            Tok::None => visitor.visit_none(),
            Tok::Some => visitor.visit_some(self),
        }
    }
}

macro_rules! forward_de {
    ($($name:ident)*) => {
        $( fn $name<V: Visitor<'de>>(self, visitor: V) -> Result<V::Value, SimSerdeError> {
            self.entry()?;
            self.deliver(visitor)
        } )*
    };
}

/// A newtype struct presented as a sequence of exactly one element.
struct OneElement<'a, 'de> {
    de: &'a mut SimDe<'de>,
    done: bool,
}

impl<'de, 'a> de::SeqAccess<'de> for OneElement<'a, 'de> {
    type Error = SimSerdeError;
    fn next_element_seed<T: de::DeserializeSeed<'de>>(&mut self, seed: T) -> Result<Option<T::Value>, SimSerdeError> {
        if self.done {
            return Ok(None);
        }
        self.done = true;
        seed.deserialize(&mut *self.de).map(Some)
    }
    fn size_hint(&self) -> Option<usize> {
        Some(if self.done { 0 } else { 1 })
    }
}

impl<'de, 'a> de::Deserializer<'de> for &'a mut SimDe<'de> {
    type Error = SimSerdeError;
    fn is_human_readable(&self) -> bool {
        self.human
    }
    forward_de! {
        deserialize_any deserialize_bool deserialize_i8 deserialize_i16 deserialize_i32 deserialize_i64
        deserialize_u8 deserialize_u16 deserialize_u32 deserialize_u64 deserialize_f32 deserialize_f64
        deserialize_char deserialize_str deserialize_string deserialize_bytes deserialize_byte_buf
        deserialize_unit deserialize_seq deserialize_map deserialize_identifier deserialize_ignored_any
    }
    fn deserialize_option<V: Visitor<'de>>(self, visitor: V) -> Result<V::Value, SimSerdeError> {
        self.entry()?;
        match self.toks.get(self.pos) {
            Some(Tok::None) => {
                self.pos += 1;
                visitor.visit_none()
            }
            Some(Tok::Some) => {
                self.pos += 1;
                visitor.visit_some(self)
            }
            // the Some marker is an explicit token of this format; its absence is a format error
            Some(t) => Err(SimSerdeError(format!("sim format: expected an option marker, found {}", t.kind()))),
            None => {
                self.hit_eof = true;
                Err(SimSerdeError("sim format: end of input".into()))
            }
        }
    }
    fn deserialize_unit_struct<V: Visitor<'de>>(self, _: &'static str, visitor: V) -> Result<V::Value, SimSerdeError> {
        self.deserialize_any(visitor)
    }
    fn deserialize_newtype_struct<V: Visitor<'de>>(self, _: &'static str, visitor: V) -> Result<V::Value, SimSerdeError> {
        // both presentations are legal (serde's derived visitors accept either): the owned-delivery flavour of this
        // format hands a newtype struct over as a sequence of one element, the others transparently
        if self.bytes_style == Delivery::Owned {
            visitor.visit_seq(OneElement { de: self, done: false })
        } else {
            visitor.visit_newtype_struct(self)
        }
    }
    fn deserialize_tuple<V: Visitor<'de>>(self, _: usize, visitor: V) -> Result<V::Value, SimSerdeError> {
        self.deserialize_any(visitor)
    }
    fn deserialize_tuple_struct<V: Visitor<'de>>(self, _: &'static str, _: usize, visitor: V) -> Result<V::Value, SimSerdeError> {
        self.deserialize_any(visitor)
    }
    fn deserialize_struct<V: Visitor<'de>>(self, _: &'static str, _: &'static [&'static str], visitor: V) -> Result<V::Value, SimSerdeError> {
        self.deserialize_any(visitor)
    }
    fn deserialize_enum<V: Visitor<'de>>(self, _: &'static str, _: &'static [&'static str], visitor: V) -> Result<V::Value, SimSerdeError> {
        self.deserialize_any(visitor)
    }
}

#[allow(dead_code)]
fn _seed_unused<'de, S: DeserializeSeed<'de>>(_: S) {}

/// Serialize `x` into tokens.
pub fn to_tokens<T: Serialize>(x: &T, human: bool, fail_at_call: Option<usize>) -> (Result<(), SimSerdeError>, SimSer) {
    let mut s = SimSer::new(human, fail_at_call);
    let r = x.serialize(&mut s);
    (r, s)
}
