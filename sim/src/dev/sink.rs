//! SimFmtSink — `fmt::Write` with a capacity: chunks are accepted whole while they fit, then refused.

use std::fmt;

pub struct SimSink {
    pub cap: usize,
    pub buf: String,
    pub chunks: Vec<usize>,
    pub refused: u32,
    pub wrote_after_refusal: bool,
}

impl SimSink {
    pub fn new(cap: usize) -> Self {
        SimSink { cap, buf: String::new(), chunks: Vec::new(), refused: 0, wrote_after_refusal: false }
    }
}

impl fmt::Write for SimSink {
    fn write_str(&mut self, s: &str) -> fmt::Result {
        if self.refused > 0 {
            self.wrote_after_refusal = true;
        }
        if self.buf.len() + s.len() > self.cap {
            self.refused += 1;
            return Err(fmt::Error);
        }
        self.buf.push_str(s);
        self.chunks.push(s.len());
        Ok(())
    }
}
