//! SimDerReader — a simulator-owned `der::Reader`: a byte store with a cursor that can be
//! *non-lending* (it cannot hand out borrowed slices, like a PEM or streaming reader: `read_slice`
//! answers `ErrorKind::Reader`, only `read_into` / `read_byte` work) and can fail at the k-th read.

use der::{EncodingRules, Error, ErrorKind, Length, Reader};

#[derive(Clone)]
pub struct SimDerReader<'a> {
    bytes: &'a [u8],
    /// end of the current (possibly nested) view
    limit: usize,
    pos: usize,
    pub lending: bool,
    pub fail_at_read: Option<usize>,
    pub reads: usize,
    pub fault_fired: bool,
}

impl<'a> SimDerReader<'a> {
    pub fn new(bytes: &'a [u8], lending: bool, fail_at_read: Option<usize>) -> Self {
        SimDerReader { bytes, limit: bytes.len(), pos: 0, lending, fail_at_read, reads: 0, fault_fired: false }
    }
    fn tick(&mut self) -> Result<(), Error> {
        let k = self.reads;
        self.reads += 1;
        if self.fail_at_read == Some(k) {
            self.fault_fired = true;
            return Err(ErrorKind::Failed.at(self.position()));
        }
        Ok(())
    }
    fn take(&mut self, n: usize) -> Result<&'a [u8], Error> {
        let end = self.pos.checked_add(n).filter(|e| *e <= self.limit).ok_or_else(|| {
            ErrorKind::Incomplete { expected_len: Length::try_from(self.pos.saturating_add(n).min(u32::MAX as usize >> 4)).unwrap_or(Length::ZERO), actual_len: self.input_len() }.at(self.position())
        })?;
        let s = &self.bytes[self.pos..end];
        self.pos = end;
        Ok(s)
    }
}

impl<'a> Reader<'a> for SimDerReader<'a> {
    fn encoding_rules(&self) -> EncodingRules {
        EncodingRules::default()
    }
    fn input_len(&self) -> Length {
        Length::try_from(self.limit).unwrap_or(Length::ZERO)
    }
    fn peek_into(&self, buf: &mut [u8]) -> der::Result<()> {
        let end = self.pos.checked_add(buf.len()).filter(|e| *e <= self.limit).ok_or_else(|| Error::incomplete(self.input_len()))?;
        buf.copy_from_slice(&self.bytes[self.pos..end]);
        Ok(())
    }
    fn position(&self) -> Length {
        Length::try_from(self.pos).unwrap_or(Length::ZERO)
    }
    fn read_nested<T, F, E>(&mut self, len: Length, f: F) -> Result<T, E>
    where
        E: From<Error>,
        F: FnOnce(&mut Self) -> Result<T, E>,
    {
        let n: usize = usize::try_from(len).map_err(E::from)?;
        let end = self.pos.checked_add(n).filter(|e| *e <= self.limit).ok_or_else(|| E::from(Error::incomplete(self.input_len())))?;
        let mut nested = self.clone();
        nested.limit = end;
        let ret = f(&mut nested);
        self.pos = nested.pos;
        self.reads = nested.reads;
        self.fault_fired = nested.fault_fired;
        ret.and_then(|v| nested.finish(v).map_err(E::from))
    }
    fn read_slice(&mut self, len: Length) -> Result<&'a [u8], Error> {
        self.tick()?;
        if !self.lending {
            return Err(ErrorKind::Reader.at(self.position()));
        }
        self.take(usize::try_from(len)?)
    }
    fn read_into<'o>(&mut self, buf: &'o mut [u8]) -> Result<&'o [u8], Error> {
        self.tick()?;
        let s = self.take(buf.len())?;
        buf.copy_from_slice(s);
        Ok(buf)
    }
}
