//! SimDerWriter — `der::Writer` with a capacity: accepts chunks while they fit, then refuses.

pub struct SimDerWriter {
    pub cap: usize,
    pub buf: Vec<u8>,
    pub chunks: Vec<usize>,
    pub refused: u32,
    /// a chunk offered after a refusal (the encoder kept writing into a failed sink)
    pub wrote_after_refusal: bool,
}

impl SimDerWriter {
    pub fn new(cap: usize) -> Self {
        SimDerWriter { cap, buf: Vec::new(), chunks: Vec::new(), refused: 0, wrote_after_refusal: false }
    }
}

impl der::Writer for SimDerWriter {
    fn write(&mut self, slice: &[u8]) -> der::Result<()> {
        if self.refused > 0 {
            self.wrote_after_refusal = true;
        }
        if self.buf.len() + slice.len() > self.cap {
            self.refused += 1;
            return Err(der::ErrorKind::Overlength.into());
        }
        self.buf.extend_from_slice(slice);
        self.chunks.push(slice.len());
        Ok(())
    }
}
