//! The only pseudo-randomness in the simulator. Everything is derived from VERIF_SEED.

#[derive(Clone, Debug)]
pub struct SplitMix64(pub u64);

impl SplitMix64 {
    pub fn next(&mut self) -> u64 {
        self.0 = self.0.wrapping_add(0x9E37_79B9_7F4A_7C15);
        let mut z = self.0;
        z = (z ^ (z >> 30)).wrapping_mul(0xBF58_476D_1CE4_E5B9);
        z = (z ^ (z >> 27)).wrapping_mul(0x94D0_49BB_1331_11EB);
        z ^ (z >> 31)
    }
}

/// Per-run seed: a pure function of (VERIF_SEED, scenario id, run index).
pub fn mix(seed: u64, scenario: u64, run: u64) -> u64 {
    let mut s = SplitMix64(seed ^ 0xC0FF_EE00_D15E_A5E5);
    let a = s.next();
    let mut s2 = SplitMix64(a ^ scenario.wrapping_mul(0xA24B_AED4_963E_E407));
    let b = s2.next();
    let mut s3 = SplitMix64(b ^ run.wrapping_mul(0x9FB2_1C65_1E98_DF25));
    s3.next()
}

#[derive(Clone, Debug)]
pub struct Xoshiro {
    s: [u64; 4],
}

impl Xoshiro {
    pub fn new(seed: u64) -> Self {
        let mut sm = SplitMix64(seed);
        let s = [sm.next(), sm.next(), sm.next(), sm.next()];
        Xoshiro { s }
    }
    pub fn next(&mut self) -> u64 {
        let r = self.s[1].wrapping_mul(5).rotate_left(7).wrapping_mul(9);
        let t = self.s[1] << 17;
        self.s[2] ^= self.s[0];
        self.s[3] ^= self.s[1];
        self.s[1] ^= self.s[2];
        self.s[0] ^= self.s[3];
        self.s[2] ^= t;
        self.s[3] = self.s[3].rotate_left(45);
        r
    }
    /// Uniform in 0..n (n > 0), unbiased by rejection.
    pub fn below(&mut self, n: u64) -> u64 {
        debug_assert!(n > 0);
        if n.is_power_of_two() {
            return self.next() & (n - 1);
        }
        let zone = u64::MAX - (u64::MAX % n) - 1;
        loop {
            let v = self.next();
            if v <= zone {
                return v % n;
            }
        }
    }
    pub fn range(&mut self, lo: u64, hi_incl: u64) -> u64 {
        lo + self.below(hi_incl - lo + 1)
    }
    pub fn chance(&mut self, num: u64, den: u64) -> bool {
        self.below(den) < num
    }
    pub fn pick<'a, T>(&mut self, xs: &'a [T]) -> &'a T {
        &xs[self.below(xs.len() as u64) as usize]
    }
    /// Weighted pick: returns index.
    pub fn weighted(&mut self, w: &[u32]) -> usize {
        let total: u64 = w.iter().map(|&x| x as u64).sum();
        let mut r = self.below(total.max(1));
        for (i, &x) in w.iter().enumerate() {
            if r < x as u64 {
                return i;
            }
            r -= x as u64;
        }
        w.len() - 1
    }
    pub fn fill(&mut self, buf: &mut [u8]) {
        for chunk in buf.chunks_mut(8) {
            let v = self.next().to_le_bytes();
            chunk.copy_from_slice(&v[..chunk.len()]);
        }
    }
    pub fn bytes(&mut self, n: usize) -> Vec<u8> {
        let mut v = vec![0u8; n];
        self.fill(&mut v);
        v
    }
}

/// 128-bit digest over a byte stream (hand-written; two independent 64-bit lanes).
#[derive(Clone, Debug)]
pub struct Digest {
    a: u64,
    b: u64,
    n: u64,
}

impl Default for Digest {
    fn default() -> Self {
        Digest { a: 0xcbf2_9ce4_8422_2325, b: 0x6a09_e667_f3bc_c908, n: 0 }
    }
}

impl Digest {
    pub fn new() -> Self {
        Self::default()
    }
    pub fn byte(&mut self, x: u8) {
        self.a = (self.a ^ x as u64).wrapping_mul(0x0000_0100_0000_01B3);
        self.b = (self.b.rotate_left(5) ^ (x as u64).wrapping_add(self.n)).wrapping_mul(0x9E37_79B9_7F4A_7C15);
        self.n = self.n.wrapping_add(1);
    }
    pub fn bytes(&mut self, xs: &[u8]) {
        for &x in xs {
            self.byte(x);
        }
        // length separator
        self.u64(xs.len() as u64 ^ 0xFEED);
    }
    pub fn u64(&mut self, x: u64) {
        for b in x.to_le_bytes() {
            self.byte(b);
        }
    }
    pub fn words(&mut self, xs: &[u64]) {
        for &x in xs {
            self.u64(x);
        }
        self.u64(xs.len() as u64 ^ 0xBEEF);
    }
    pub fn str(&mut self, s: &str) {
        self.bytes(s.as_bytes());
    }
    pub fn merge(&mut self, other: &Digest) {
        let (a, b) = other.finish();
        self.u64(a);
        self.u64(b);
    }
    pub fn finish(&self) -> (u64, u64) {
        let mut s = SplitMix64(self.a ^ self.n);
        let x = s.next();
        let mut t = SplitMix64(self.b ^ x);
        (x, t.next())
    }
    pub fn hex(&self) -> String {
        let (a, b) = self.finish();
        format!("{:016x}{:016x}", a, b)
    }
}
