//! Fingerprint of the simulator's own sources and of the library under test, compiled into the binary: the two build
//! profiles that C11 compares must come from the same sources, otherwise their event logs differ for reasons that
//! have nothing to do with the code under test.
use std::collections::BTreeMap;
use std::path::{Path, PathBuf};

fn collect(dir: &Path, out: &mut BTreeMap<PathBuf, Vec<u8>>) {
    let Ok(rd) = std::fs::read_dir(dir) else { return };
    for e in rd.flatten() {
        let p = e.path();
        if p.is_dir() {
            collect(&p, out);
        } else if p.extension().map(|x| x == "rs").unwrap_or(false) {
            if let Ok(b) = std::fs::read(&p) {
                out.insert(p, b);
            }
        }
    }
}

fn main() {
    let manifest = PathBuf::from(std::env::var("CARGO_MANIFEST_DIR").unwrap());
    let mut files = BTreeMap::new();
    collect(&manifest.join("src"), &mut files);
    // the library under test: the path of the `crypto-bigint` dependency as written in Cargo.toml
    let toml = std::fs::read_to_string(manifest.join("Cargo.toml")).unwrap_or_default();
    let lib = toml
        .lines()
        .find(|l| l.trim_start().starts_with("crypto-bigint"))
        .and_then(|l| l.split("path").nth(1))
        .and_then(|r| r.split('"').nth(1))
        .map(PathBuf::from);
    if let Some(lib) = &lib {
        let lib = if lib.is_absolute() { lib.clone() } else { manifest.join(lib) };
        collect(&lib.join("src"), &mut files);
        println!("cargo:rerun-if-changed={}", lib.join("src").display());
    }
    println!("cargo:rerun-if-changed={}", manifest.join("src").display());
    println!("cargo:rerun-if-changed=build.rs");
    // FNV-1a over (relative order, contents)
    let mut h: u64 = 0xcbf29ce484222325;
    for (p, b) in &files {
        for x in p.file_name().unwrap().to_string_lossy().bytes().chain(b.iter().copied()) {
            h ^= x as u64;
            h = h.wrapping_mul(0x100000001b3);
        }
    }
    println!("cargo:rustc-env=CBSIM_SRC_FINGERPRINT={:016x}-{}", h, files.len());
}
