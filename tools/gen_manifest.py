#!/usr/bin/env python3
"""Writes /verif/MANIFEST.json. Edit CLAIMED below when a check is added."""
import json
NA = {
 "C01":"leakage trace of one deterministic single-threaded computation; no schedule, clock, device or fault varies between the two executions compared — needs trace/binary comparison, a different technique family",
 "C02":"div_rem and its forms are pure functions of (n, d); no seam, history or fault to simulate — seeded operands would be input generation",
 "C03":"multiplication/squaring are pure functions of (a, b); Karatsuba scratch lives inside one call",
 "C04":"add/sub/neg and carries are pure functions of operands and carry-in",
 "C05":"shifts and bit queries are pure functions of (x, shift)",
 "C06":"comparison/equality/hash/select coherence is a relation between pure functions of the values",
 "C07":"modular add/sub/neg/double/mul/halve are pure functions of (a, b, p); exercised inside C08 histories only as far as C08 states",
 "C09":"pow / multi-exponentiation / lincomb are pure functions of (base, exponent, bound, m); tables live inside one call",
 "C10":"inversion and gcd are pure functions of (a, m); precomputed inverters are immutable values",
 "C13":"two's-complement signed arithmetic: pure functions of operands",
 "C14":"signed division identities: pure functions of (n, d)",
 "C15":"route equivalence of pure functions is differential testing; the two route pairs that involve a seam or a history are decided under C19 (fixed vs boxed RNG consumption) and C08 (const/runtime/boxed Montgomery)",
 "C17":"radix string conversion: pure functions &str -> Result<Uint> and Uint -> String, no reader/writer/device involved",
 "C20":"integer square root: pure function of x",
}
CLAIMED = {
 "C11": dict(
   category="exploration",
   text="SCOPED totality check: the simulated workloads of C08, C12, C16, C18 and C19 (every seam operation of the crate: sampling, (de)serialization, DER/RLP codecs, formatting, wrapper producers and consumers, Montgomery histories) run under a panic / progress monitor with every device fault those workloads inject (RNG failure at any call, deserializer errors, truncated / corrupted records, full writers and sinks), in TWO build profiles: release (opt-level 3, no debug assertions / overflow checks) in-process and dbg (opt-level 1, debug assertions, overflow checks) as a child process executing the same plans. Reported: an unwind where a Result/Option or no panic is documented, a documented panic that does not happen, a run whose event log differs between profiles (a trap or silent wrap in one of them), non-termination (finite-tape liveness bound of 256 rounds after faults stop; real-time watchdog).",
   design_ref="DESIGN.md section 4, C11",
   note="NOT decided: panics that depend on operand values alone in operations outside the simulated workloads (e.g. a debug_assert on a masked branch of a division helper) — that is operand-space search, outside this technique. Trusted: the expected-panic table (DESIGN appendix C) encoded at the call sites; catch_unwind; cargo profiles dbg/release apply to /repo because it is a path dependency.",
   technique="deterministic simulation: panic/progress monitor around every simulated operation under injected seam faults, same plans executed in two build profiles and event logs compared",
 ),
 "C08": dict(
   category="exploration",
   text="Refinement of a stateful implementation against a small executable reference model, checked step by step: seeded operation histories (4..64 events, 8 registers; construction with values below and above m, zero/one, add/sub/neg/double/mul/square/halve in every operator and assign form and through the Monty / Square traits, a long-lived multiplier object reused across events, pow / pow_bounded_exp / lincomb_vartime, inversion through the inherent methods, the Invert trait and one precomputed inverter object reused for three inversions in a row, select/swap (also across two moduli), copy_montgomery_from, to/from_montgomery, clone/drop with shared Arc params, const -> runtime conversion, zeroize) run in lock-step on ConstMontyForm, MontyForm and BoxedMontyForm for widths 1,2,3,4,6,8,16,32 (boxed alone at every width 1..=33) and adversarial moduli (1, 3, 2^BITS-1, 2^(BITS-1)+1, ~2^BITS/3, ~2^BITS/4, zero high limbs, 0..130 leading zero bits, sparse, seeded). A separate batch adds seam events inside the history: ConstMontyForm::try_random from scripted / failing RNG tapes, and persist/restore of registers through the serde seam with storage faults. After every event every touched register of every replica: stored form < m, retrieve == model, replicas agree, boxed precision. Parameter sets of all constructors are compared with each other and with their definitions.",
   design_ref="DESIGN.md section 4, C08",
   note="Trusted: num-bigint reference arithmetic, to_words()/from_words() bridge, the derived Debug rendering of MontyParams/BoxedMontyParams for private fields (parse failure = harness error, exit 2). The const replica only sees the compile-time modulus table. Sampling, not proof: the 'single conditional subtraction suffices' claim is exercised (probe: final-subtraction-needed) but not proven.",
   technique="deterministic simulation: lock-step operation-history refinement of three replicas against a Z/mZ reference model, with RNG-tape and persist/restore fault events inside the history",
 ),
 "C12": dict(
   category="exploration",
   text="Safety invariant over reachable states: a pool of NonZero/Odd values (carriers Limb, Uint<1>, Uint<2>, Uint<4>, Int<2>, BoxedUint) is driven by seeded histories of <= 32 events — every public producer (enumerated once per carrier/wrapper/producer triple, then sampled), selection/assign/swap between members, conversions, random generation from fault-injected RNG tapes (zero prefixes, all-even words, all-zero, short tapes, failing calls), deserialization of hand-built and faulted records through the simulator's serde format / bincode / json, and consumers. After every event every pool member must satisfy value != 0 / value odd; byte-order producers must decode in the stated order; invalid arguments must be refused (or panic where documented).",
   design_ref="DESIGN.md section 4, C12",
   note="Trusted: validity read through as_ref().to_words(); the stated-order decoder in the harness. Zeroize on a wrapper and the placeholder inside a none CtOption are deliberately not producers (DESIGN C12). For the non-seam producers the simulator adds nothing over calling them; they are in the workload because selection, conversion, persist/restore and consumers act on whatever the pool holds.",
   technique="deterministic simulation: invariant monitor over a pool of values under seeded operation histories with RNG-tape and deserializer fault injection",
 ),
 "C16": dict(
   category="exploration",
   text="SCOPED to the surfaces that meet a device: serde encodings of Limb, Uint (1..8,16,32 limbs), Wrapping, Checked, NonZero, Odd, ConstMontyForm through a simulator-owned serde format (binary and human-readable, three visitor delivery styles, serializer/deserializer error injection, type confusion, payload faults incl. every truncation offset), bincode and serde_json; Display/LowerHex/UpperHex/Binary/Debug through a text sink of every capacity 0..len; the Encoding::{to,from}_{le,be}_bytes routes that feed them, checked positionally; and byte / hex records written by to_{be,le}_bytes at the stated size (BYTES, ceil(precision/8) for BoxedUint precisions 0..=520 resp. ..=2100, 2*BYTES hex digits), torn / extended / corrupted on the storage medium (0-2 faults, or every record length 0..=size+9) and read back through Uint::from_{be,le}_slice, Uint::from_{be,le}_hex, Int::from_be_hex, BoxedUint::from_{be,le}_slice and BoxedUint::from_be_hex. BoxedUint::from_words is fed by a simulated word source with exact, loose and absent size hints. Oracles: round trip; a faulted serde record is rejected or re-serializes to itself; size; positional expansion; a slice / hex record is accepted exactly when it is well-formed of the stated size, with its positional value, and the boxed decoders answer InputSize / Precision exactly as documented; sink content is a prefix of the full text and a refusal is reported as Err.",
   design_ref="DESIGN.md section 4, C16",
   note="NOT decided here (conversions with no record, device or fault in them, out of reach of this technique): From<primitive>/Int::from_i*, Uint to/from words, concat/split/resize/widen/shorten. Fixed-width slice decoders and hex decoders refuse by panicking; that is an accepted refusal. Trusted: to_words()/from_words() bridge, the simulator's serde format and sink, bincode/serde_json framing.",
   technique="deterministic simulation: serialize / encode -> simulated medium with token/payload/record faults and device error injection -> deserialize / decode, against the documented answer; fmt into capacity-limited sink at every capacity",
 ),
 "C18": dict(
   category="fault_enumeration",
   text="Record-store simulation of the DER and RLP codecs through their stream seams (der::Writer with a capacity, SliceWriter, SliceReader top-level and nested in a SEQUENCE, TryFrom<AnyRef>/<UintRef>, RlpStream, Rlp). Enumerated completely per width: every content length 0..=BYTES+4 x leading/second octet classes x tags x length-field forms x entry points; every truncation offset and appended length of sampled records; every writer capacity 0..=len+1. Seeded: values and 0-3 storage faults per record. Every decode is compared with a strict reference codec (Err, or Ok with exactly the value the canonical encoding denotes), every encode with the canonical reference encoding; decoders and encoders run under the panic monitor.",
   design_ref="DESIGN.md section 4, C18",
   note="Trusted: the reference codecs (model/codec.rs, ~150 lines, written from X.690 and the RLP spec), num-bigint, Encoding::to_be_bytes/from_be_bytes as value bridge, the der crate's header/length layer and the rlp crate's item framing (where rlp's framing is laxer than the RLP spec — e.g. long-form header for a short string — this is counted as a probe, not reported: it is outside crypto-bigint's Decodable impl). Complete for the enumerated structural dimensions at the listed widths only; bodies and bit flips are sampled.",
   technique="deterministic simulation: encode -> simulated medium with enumerated storage faults (every truncation offset, every writer capacity, every length-field form) -> decode, judged against reference codecs",
 ),
 "C19": dict(
   category="exploration",
   text="Seeded simulation of every sampling API against a simulator-owned RNG tape (uniform, all-zero, all-ones, words equal to / around the modulus, alternating accept/reject, finite tapes ending mid-value, failure injected at a call or byte index). Range, documented errors, wrapper invariants, fixed-vs-boxed agreement of value and bytes consumed, error propagation at every consumption point (enumerated per run) and recovery are checked on each run; every bit length 0..=BITS+1 is enumerated per width; uniformity is a chi-square judgement over >=1e6 draws per configuration with a 1e-12 false-alarm bound. Sampling, not proof.",
   design_ref="DESIGN.md section 4, C19",
   note="Trusted: to_words()/from_words() bridge, num-bigint comparison, the chi-square tail routine. No algorithm-level model of the sampler is assumed; value and stream consumption are only compared between fixed and boxed integers, never predicted.",
   technique="deterministic simulation: seeded RNG-tape fault injection (fail-at-call enumerated, exhaustion, adversarial streams) + recorded consumption histories + seeded statistics",
 ),
}
ORDER = ["C08","C11","C12","C16","C18","C19"]
checks=[]
for pid in ORDER:
    if pid not in CLAIMED: continue
    c=CLAIMED[pid]
    checks.append({
      "property_id":pid,
      "quick_cmd":f"./check {pid} --tier quick",
      "thorough_cmd":f"./check {pid} --tier thorough",
      "evidence_file":f"/verif/evidence/{pid}.json",
      "replay_cmd_template":f"./check {pid} --replay {{path}}",
      "engine":"cbsim",
      "level_claimed":{"category":c["category"],"text":c["text"],"design_ref":c["design_ref"]},
      "level_note":c["note"],
      "technique":c["technique"],
    })
na=[{"property_id":k,"reason":v} for k,v in NA.items()]
for pid in ORDER:
    if pid not in CLAIMED:
        na.append({"property_id":pid,"reason":"claimed in DESIGN.md; its check is still under construction — listed here until the command is registered"})
m={
 "version":1,
 "setup_cmd":"cd /verif/sim && CARGO_NET_OFFLINE=true cargo build --offline --release && CARGO_NET_OFFLINE=true cargo build --offline --profile dbg",
 "hooks":{"guard":"rustcrypto_crypto_bigint_verif (unused: no hook in /repo is needed, every seam is an existing public trait)",
          "enable":"none — checks build /repo by path dependency with features alloc,rand_core,serde,der,rlp,hybrid-array,zeroize,extra-sizes",
          "baseline_off_cmd":"cd /repo && cargo test --workspace --no-fail-fast --offline",
          "source_commits":[], "add_only":True},
 "engines":[{"name":"cbsim","path":"/verif/sim","serves_properties":[c["property_id"] for c in checks],
   "kind_free_text":"deterministic simulator: seeded plan generation, simulated RNG / serde format / DER writer / text sink / storage medium devices with fault injection, reference models, panic monitor, plan minimiser and replay"}],
 "checks":checks,
 "notes":"See DESIGN.md. Technique family: deterministic simulation with fault injection. Properties that are pure functions of their operands are listed under not_applicable. VERIF_SEED (default 1) and VERIF_TIER are honoured.",
 "not_applicable":na,
}
json.dump(m, open("/verif/MANIFEST.json","w"), indent=1)
print("checks:",[c["property_id"] for c in checks])
