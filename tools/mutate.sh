#!/bin/bash
# usage: tools/mutate.sh <PROP> <file-in-repo> <python-regex-or-literal-old> <new> [tier]
# Applies a one-off literal replacement to /repo, runs ./check <PROP>, reverts. For sensitivity experiments.
set -u
PROP="$1"; FILE="$2"; OLD="$3"; NEW="$4"; TIER="${5:-quick}"
cd /repo || exit 2
git diff --quiet || { echo "repo dirty"; exit 2; }
python3 - "$FILE" "$OLD" "$NEW" <<'PY'
import sys
f,old,new=sys.argv[1:4]
s=open(f).read()
if s.count(old)!=1:
    print("pattern occurs",s.count(old),"times"); sys.exit(3)
open(f,'w').write(s.replace(old,new))
PY
rc=$?
if [ $rc -ne 0 ]; then git checkout -- .; exit 2; fi
git --no-pager diff --stat | tail -1
cd /verif && CBSIM_ROOT=/tmp/mut_root CBSIM_TARGET_DIR=/verif/target ./check_mut "$PROP" --tier "$TIER" 2>&1 | grep -E "VIOLATION|KNOWN|violations=|error" | cut -c1-420 | head -${MUT_LINES:-6}
cd /repo && git checkout -- .
