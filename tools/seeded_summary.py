#!/usr/bin/env python3
"""Writes /verif/seeded/SUMMARY.md from the meta.json files."""
import json, glob, os
rows=[]
for d in sorted(glob.glob("/verif/seeded/*/meta.json")):
    m=json.load(open(d)); rows.append(m)
with open("/verif/seeded/SUMMARY.md","w") as f:
    f.write("# Seeded changes (written by independent sub-agents; verified and evaluated by tools/seed_eval.sh)\n\n")
    f.write("Each directory holds patch.diff, demo.rs, the author's README.md and meta.json (what was confirmed, which quick-tier checks fired).\n")
    f.write("`R2_*` = second round (harder kinds: multi-step, two-site, device misbehaving at one point, rare configuration).\n\n")
    f.write("| id | breaks | needs | caught by (quick tier) | history |\n|---|---|---|---|---|\n")
    for m in rows:
        f.write(f"| {m['id']} | {m['breaks_property']} | {m['needs_in_order_to_manifest']} | {', '.join(m['caught_by']) or '**nothing**'} | {m.get('history','')} |\n")
    n=len(rows); c=sum(1 for m in rows if m['caught_by'])
    f.write(f"\n{c} of {n} caught by at least one quick-tier check.\n")
print(open("/verif/seeded/SUMMARY.md").read()[-300:])
