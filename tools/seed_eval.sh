#!/bin/bash
# usage: tools/seed_eval.sh <PROP> <seed_dir> <name> [extra cargo test args for the demo, e.g. --release]
# Evaluates one seeded change in the scratch worktree /tmp/wt_eval with the scratch cbsim build /tmp/seedsim
# (same sources as /verif/sim, path dependency on /tmp/wt_eval). Writes /tmp/seed_logs/<name>.json.
set -u
PROP="$1"; DIR="$2"; NAME="$3"; shift 3; EXTRA="$*"
WT="${SEED_WT:-/tmp/wt_eval}"; SIMDIR="${SEED_SIM:-/tmp/seedsim}"; LOG=/tmp/seed_logs/$NAME.log; : > "$LOG"
# snapshot of the simulator sources, so that /verif/sim can be edited while this runs
[ -n "${SEED_EVAL_NO_SYNC:-}" ] || { rsync -a --delete /verif/sim/src/ $SIMDIR/src/; cp /verif/sim/build.rs $SIMDIR/; }
cd $WT && git checkout -q -- . && rm -f tests/seed_demo.rs
git apply "$DIR/patch.diff" >>"$LOG" 2>&1 || { echo "{\"name\":\"$NAME\",\"error\":\"patch does not apply\"}" > /tmp/seed_logs/$NAME.json; exit 1; }
echo "== suite with patch" >>"$LOG"
cargo test --workspace --no-fail-fast --offline >"$LOG.suite" 2>&1; suite_rc=$?
suite_pass=$(grep -E "^test result: ok" "$LOG.suite" | awk '{s+=$4} END {print s+0}')
suite_fail=$(grep -E "^test result: FAILED" "$LOG.suite" | wc -l)
echo "== demo with patch" >>"$LOG"
cp "$DIR/demo.rs" tests/seed_demo.rs
cargo test --offline --all-features $EXTRA --test seed_demo >>"$LOG.demo_with" 2>&1; demo_with_rc=$?
rm -f tests/seed_demo.rs
echo "== cbsim checks with patch" >>"$LOG"
( cd $SIMDIR && cargo build --offline --release >>"$LOG.build" 2>&1 ) || { echo "build failed" >>"$LOG"; }
ROOT=/tmp/seed_logs/root_$NAME; rm -rf $ROOT; mkdir -p $ROOT; cp /verif/known_findings.json $ROOT/
declare -A RES
PROPS="C08 C12 C16 C18 C19"
for p in $PROPS; do
  out=$($SIMDIR/target/release/cbsim run $p --tier quick --root $ROOT 2>&1); rc=$?
  echo "$out" | grep -E "VIOLATION|KNOWN|violations=" | cut -c1-400 | head -6 >>"$LOG"
  RES[$p]="$rc:$(echo "$out" | grep -c '^VIOLATION')"
done
# C11 (two profiles) only when asked for, or when nothing else caught it
c11="skipped"
caught=0; for p in $PROPS; do [ "${RES[$p]%%:*}" = "1" ] && caught=1; done
if [ "$PROP" = "C11" ] || [ $caught = 0 ]; then
  ( cd $SIMDIR && cargo build --offline --profile dbg >>"$LOG.build" 2>&1 )
  out=$(CBSIM_DBG_BIN=$SIMDIR/target/dbg/cbsim $SIMDIR/target/release/cbsim run C11 --tier quick --root $ROOT 2>&1); rc=$?
  echo "$out" | grep -E "VIOLATION|KNOWN|violations=" | cut -c1-400 | head -6 >>"$LOG"
  c11="$rc:$(echo "$out" | grep -c '^VIOLATION')"
fi
git checkout -q -- .
echo "== demo without patch" >>"$LOG"
cp "$DIR/demo.rs" tests/seed_demo.rs
cargo test --offline --all-features $EXTRA --test seed_demo >>"$LOG.demo_without" 2>&1; demo_without_rc=$?
rm -f tests/seed_demo.rs
cat > /tmp/seed_logs/$NAME.json <<J
{"name":"$NAME","property":"$PROP","suite_with_patch":{"rc":$suite_rc,"tests_passed":$suite_pass,"failed_groups":$suite_fail},
 "demo_with_patch_rc":$demo_with_rc,"demo_without_patch_rc":$demo_without_rc,"demo_extra_args":"$EXTRA",
 "checks":{"C08":"${RES[C08]}","C12":"${RES[C12]}","C16":"${RES[C16]}","C18":"${RES[C18]}","C19":"${RES[C19]}","C11":"$c11"}}
J
cat /tmp/seed_logs/$NAME.json
