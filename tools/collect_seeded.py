#!/usr/bin/env python3
"""Copies the sub-agents' seeded changes and my own evaluation results into /verif/seeded/<id>/."""
import json, os, shutil, re, sys
NEEDS = {
 "C18_1":"a canonical DER INTEGER whose magnitude is exactly BYTES+1 octets (one octet too long for the type)",
 "C18_2":"the one-byte RLP string 00 (non-canonical zero)",
 "C18_3":"from_der with content of exactly BYTES octets whose first octet has the top bit set (negative) or is a superfluous 00",
 "C12_1":"an RNG stream that starts with 4 all-zero candidates",
 "C12_2":"a build without debug assertions and an even hex literal",
 "C12_3":"a Uint narrower than 128 bits (U64) and a NonZeroU128 that is a multiple of 2^64",
 "C19_1":"a modulus of two or more limbs and a distribution check (or a scripted stream hitting the modulus' top limb)",
 "C19_2":"bit_length = 33 mod 64 (33, 97, 161, ...) on a 64-bit target and a check of the top requested bit",
 "C19_3":"BoxedUint with bits_precision not a multiple of 64 and bit_length in the gap up to the next multiple",
 "C16_1":"a fmt::Write sink that refuses a write on a non-final limb of a multi-limb integer",
 "C16_2":"a human-readable deserializer and a hex record short by 1..7 bytes",
 "C16_3":"a human-readable serializer and a value whose bytes are not a palindrome",
 "C08_1":"a multi-limb boxed modulus whose top limb is all ones and operands next to the modulus",
 "C08_2":"a macro-defined modulus with exactly Word::BITS leading zeros",
 "C08_3":"the MontyMultiplier::square_assign API on a boxed form followed by neg/sub, modulus neither small nor adjacent to 2^BITS",
 "C11_1":"a release-profile build, the `+=` operator on Uint and overflowing operands",
 "C11_2":"from_str_radix_vartime with radix 2/4/16 and leading zeros directly followed by `_`",
 "C11_3":"BoxedUint::random_mod with a modulus stored at a precision at least one limb wider than its value",
}
NEEDS.update({
 "R2_C19_1":"a multi-limb modulus whose top limb is an exact power of two with non-zero low limbs, and a distribution check (or an RNG whose first word equals the top limb)",
 "R2_C19_2":"BoxedUint, bits_precision not a multiple of 64 and bit_length between the precision and the limb-rounded precision (two cooperating edits)",
 "R2_C19_3":"Limb::random_mod with a modulus >= 256 that has a rejection region, and a distribution check (stale low bytes kept across retries within one call)",
 "R2_C18_1":"RlpStream::new_list(n>=2) with a zero value at a non-final position (the item is counted twice and the list header closes early)",
 "R2_C18_2":"an RLP payload of exactly BYTES octets that starts with 00",
 "R2_C18_3":"the TryFrom<AnyRef> entry point with a negative, non-minimal or empty INTEGER body",
 "R2_C16_1":"a fmt::Write sink that refuses one chunk of a non-final limb (UpperHex / Display / Debug)",
 "R2_C16_2":"a forged ConstMontyForm record holding exactly the modulus",
 "R2_C16_3":"BoxedUint::from_le_slice with a precision whose byte length is below the limb-rounded size and an input length in that gap",
 "R2_C12_1":"an RNG that yields two consecutive all-zero samples",
 "R2_C12_2":"NonZero<BoxedUint>::widen to a precision smaller than the current one with only high limbs set (two cooperating edits)",
 "R2_C12_3":"a conditional select / assign / swap on MontyParams or MontyForm with a true choice, then .modulus()",
 "R2_C08_1":"the all-ones modulus 2^BITS-1 and an odd Montgomery representation, halving on the fixed-width forms",
 "R2_C08_2":"a boxed modulus of two or more limbs whose top limb is all ones, operands near m",
 "R2_C08_3":"ConstMontyForm::random with an RNG returning exactly the modulus words for a candidate, or a tiny modulus (two cooperating edits)",
 "R2_C11_1":"BoxedMontyParams::new_vartime on a modulus with >= 64 leading zero bits, then lincomb_vartime (debug build traps, optimized build wraps)",
 "R2_C11_2":"BoxedMontyForm::pow on a modulus with exactly one leading zero bit and a rare base/exponent pair (about 1 in 7500)",
 "R2_C11_3":"a DER INTEGER whose magnitude is exactly one octet too long",
})
NEEDS.update({
 "R3_C16_1":"a fixed-capacity fmt sink that fills up in the middle of the binary digits of a Uint",
 "R3_C16_2":"a forged ConstMontyForm record (binary or hex) whose payload is exactly the modulus",
 "R3_C16_3":"the # flag used directly on a Limb (or a wrapper forwarding to it) holding a value with leading zero digits",
 "R3_C18_1":"a Uint appended to a bounded RlpStream list (counted as two items)",
 "R3_C18_2":"a full-width value whose top octet is exactly 0x80 (value_len one short of what encode_value writes)",
 "R3_C18_3":"a der::Writer that refuses a full 8-octet chunk but still has room for the short tail (SliceWriter at one particular capacity)",
 "R3_C19_1":"an RNG that fails at one particular call inside NonZero::try_random (error swallowed; a permanently failing RNG makes it spin forever)",
 "R3_C19_2":"Limb::random_mod with a multi-byte modulus and a rejected first candidate (stale low bytes), seen in the distribution",
 "R3_C19_3":"the infallible BoxedUint::random_mod with a modulus stored with whole zero high limbs (result precision from bits())",
 "R3_C08_1":"a reused multiplier object: the second and later square_assign on the same BoxedMontyMultiplier",
 "R3_C08_2":"m = 2^BITS-1 and an odd Montgomery representation, halving on the fixed-width forms",
 "R3_C08_3":"negating a boxed zero (e.g. -(x - x)), or any negation for m = 1",
 "R3_C12_1":"Odd::<BoxedUint>::random(rng, 0) after two cooperating edits (zero-limb BoxedUint, first_mut())",
 "R3_C12_2":"a release-profile build and ConstCtOption::expect on a none value",
 "R3_C12_3":"Odd::from_le_hex on a string with a non-hex character anywhere but the last two positions",
})
NEEDS.update({
 "R4_C18_1":"a multi-limb DER magnitude whose length is not a multiple of the limb size (stale scratch buffer across limb chunks)",
 "R4_C18_2":"a der::Reader that cannot lend slices (read_slice -> ErrorKind::Reader) and an INTEGER whose first octet is >= 0x80",
 "R4_C18_3":"the RLP item 81 NN with NN in 01..7f (decode through Rlp::data() loses the indirection check)",
 "R4_C16_1":"the # flag on Debug of an Int ({:#?})",
 "R4_C16_2":"the # flag on a Wrapping<Uint> / Wrapping<Limb> (prefix dropped)",
 "R4_C16_3":"a release-profile build and an over-long slice passed directly to Uint::from_le_slice",
 "R4_C19_1":"a multi-limb modulus whose top significant limb is a power of two with a non-zero lower limb",
 "R4_C19_2":"Int::try_random_bits_with_precision with a precision different from the type's width",
 "R4_C19_3":"Limb::random_mod with modulus 1 (index underflow)",
 "R4_C08_1":"from_const_params / From<&ConstMontyForm>, then MontyForm::new or inv() with the converted parameters (R^2 and R^3 swapped)",
 "R4_C08_2":"two operands whose Montgomery representations add to exactly m (x + (-x), 1 + (m-1), (m-1)/2 + (m+1)/2)",
 "R4_C08_3":"boxed lincomb_vartime with >= 2 products on a modulus with its top bit set",
 "R4_C12_1":"NonZero<Uint>::from_u64 / From<NonZeroU64> with a multiple of 2^32",
 "R4_C12_2":"BoxedUint::to_odd on an even multi-limb value with an odd higher limb",
 "R4_C12_3":"a release-profile build and NonZero::<Limb>::new_unwrap(0)",
 "R4_C11_1":"a multi-limb modulus just above a limb boundary and an RNG whose first accepted word equals the modulus' high word (never returns)",
 "R4_C11_2":"a truncated hex record through a human-readable deserializer (debug build: assertion; release: wrong value)",
 "R4_C11_3":"BoxedMontyForm::invert at exactly 1920-bit precision in the debug-assertion profile",
})
NEEDS.update({
 "R5_C19_1":"a full-width compile-time modulus not close to 2^BITS and a distribution check (ConstMontyForm::try_random reduces a full-width word instead of rejecting)",
 "R5_C19_2":"an RNG that fails at some call inside Odd::<BoxedUint>::random (returns Odd(1) instead of panicking)",
 "R5_C19_3":"BoxedUint::try_random_mod (fallible path only) with a modulus stored with spare zero high limbs",
 "R5_C16_1":"a human-readable serializer and ConstMontyForm (serialize writes the retrieved value, deserialize expects the Montgomery form)",
 "R5_C16_2":"a zero-limb BoxedUint formatted with Binary (forwards to LowerHex of a zero limb)",
 "R5_C16_3":"a truncated / corrupted Checked record, or a deserializer error at one call (error swallowed into the None state)",
 "R5_C18_1":"RLP encoding of a value with more all-zero limbs at the bottom than at the top (e.g. 2^127 in U128)",
 "R5_C18_2":"a DER magnitude longer than one limb and not a multiple of 8 octets (chunks().rev() instead of rchunks())",
 "R5_C18_3":"an RLP input whose first octet is a list header (decode through Rlp::data())",
 "R5_C12_1":"conditional_swap (not select/assign) with choice = 1 on NonZero/Odd over Uint/Int, operands differing above the low byte (two cooperating edits)",
 "R5_C12_2":"Deserialize::deserialize_in_place into an existing wrapper with a zero / even record, looking at the target after the error",
 "R5_C12_3":"the hybrid-array feature, the U64 width only, from_le_byte_array (little-endian decoded as big-endian)",
 "R5_C08_1":"a Montgomery product that is a non-zero multiple of the modulus (zero divisors of a composite modulus, or new(k*m))",
 "R5_C08_2":"BoxedMontyForm::double with the top bit of the modulus set and a representation >= 2^(BITS-1)",
 "R5_C08_3":"pow_bounded_exp with exponent_bits not a multiple of 4 and exponent bits set above the bound inside the top window",
})
NEEDS.update({
 "R6_C08_1":"BoxedMontyForm::pow / pow_bounded_exp where the almost-Montgomery accumulator ends with floor(z/m) = 2 (modulus with its top bit clear, rare operand pair), looking at the stored form",
 "R6_C08_2":"squaring (not multiplying) a non-zero boxed value whose square is 0 mod m (nilpotent element of a modulus with a square factor)",
 "R6_C08_3":"the borrowed-minus-owned operator `&a - b` on BoxedMontyForm with a == b",
 "R6_C18_1":"DER encoding of a fixed-width value with an all-zero limb below a non-zero one",
 "R6_C18_2":"U8192 only, value with the top bit set (1025 content octets)",
 "R6_C18_3":"a zero Uint appended to an open RlpStream list (two cooperating sites)",
 "R6_C19_1":"a multi-limb modulus, a candidate rejected by the full-width comparison, and a distribution or stream-consumption check",
 "R6_C19_2":"ConstMontyForm::random on a compile-time modulus not close to 2^BITS, and a distribution or stream-consumption check",
 "R6_C19_3":"BoxedUint::try_random_bits_with_precision with a precision that is not a multiple of 64 and a bit_length between it and the limb-rounded precision",
 "R6_C11_1":"the debug-assertion profile, a boxed division whose normalised remainder and divisor share their top limb (e.g. BoxedMontyParams::new for a modulus next to 2^BITS/3)",
 "R6_C11_2":"the debug-assertion profile and any operation on the result of negating a boxed zero",
 "R6_C11_3":"the debug-assertion profile and the U3584 width only (ArrayEncoding / DER)",
})
NEEDS.update({
 "R7_C08_1":"MontyParams::new_vartime / impl_modulus! (R^2 through rem_wide_vartime) for a modulus of the shape 2^k+1 with whole zero high limbs (2^128+1 in U192, 2^160+1 in U256): the Knuth D6 add-back branch",
 "R7_C08_2":"a forged ConstMontyForm record whose payload is exactly the modulus (range check <= instead of <)",
 "R7_C08_3":"conditional selection (choice = 1) between Montgomery forms of two DIFFERENT moduli of the same width, one full-width and one with leading zeros, followed by an addition that carries (two cooperating edits)",
 "R7_C11_1":"BoxedUint::mul of two operands of at least 33 limbs whose smaller limb count is odd (boxed Karatsuba tail)",
 "R7_C11_2":"BoxedUint::rem_vartime / BoxedMontyParams::new_vartime with a modulus whose value fits one limb but is stored at two or more limbs",
 "R7_C11_3":"Uint::split_mul / checked_mul with a U1024, U2048, U4096 or U8192 left operand and a right operand of a different width",
 "R7_C12_1":"a hex record with a back-tick (an 'a' with its lowest bit flipped) handed to Odd::from_{be,le}_hex",
 "R7_C12_2":"Clone::clone_from on a NonZero<BoxedUint> / Odd<BoxedUint> from a wider source whose low limbs are zero (two cooperating edits)",
 "R7_C12_3":"a human-readable deserializer: Uint decoded big-endian there while serialization stays little-endian, so Odd / NonZero records are byte-reversed",
 "R7_C16_1":"a hex record with a non-hex character in the LOW nibble of a byte after a valid high nibble (two cooperating edits narrowing the error marker to 8 bits)",
 "R7_C16_2":"BoxedUint::from_be_slice with bits_precision not a multiple of 8 and a record shorter than ceil(precision/8) whose first octet has high bits set",
 "R7_C16_3":"Uint::split_mixed with uneven halves (U192 -> (U64, U128))",
 "R7_C18_1":"an INTEGER longer than the type through TryFrom<UintRef> / TryFrom<AnyRef> (two cooperating edits: the capacity check moved into decode_value)",
 "R7_C18_2":"an RLP payload of BYTES+1..32 octets for U64 / U128 / U192 (padded into a U256 buffer and narrowed with resize)",
 "R7_C18_3":"an RLP record cut right after a prefix octet 0x81..=0xb7 (is_int() pre-check indexes bytes[1])",
 "R7_C19_1":"a modulus of three or more limbs and a candidate that ties with the modulus' top limb (tie-break walks the low limbs in the wrong order)",
 "R7_C19_2":"infallible BoxedUint::random_mod with a single-limb modulus: different stream consumption than Uint::random_mod / try_random_mod from the second call or first rejection on",
 "R7_C19_3":"an RNG that yields two all-zero candidates in a row to NonZero::try_random",
})
NEEDS.update({
 "R8_C08_1":"Clone::clone_from between two BoxedMontyForm values over different moduli of the same limb count (parameters left stale)",
 "R8_C08_2":"width 1 only, a modulus above 2^63 and large operands (single-limb fast path of montgomery_reduction drops the 2^64 carry)",
 "R8_C08_3":"conditional_assign / conditional_swap (not conditional_select) between MontyForm values over different moduli with a true choice",
 "R8_C16_1":"a Uint appended to a bounded RlpStream list of two or more (counted twice through stream.append)",
 "R8_C16_2":"BoxedUint::from_words fed by an iterator whose size_hint lower bound is inexact (from_fn, filter, map_while)",
 "R8_C16_3":"a hex record containing one of the control characters 0x10..=0x19 (a digit with bit 5 flipped)",
 "R8_C18_1":"RLP encoding of a value whose magnitude is exactly 55 octets (U448 and wider): long form b8 37 instead of the short form",
 "R8_C18_2":"a fitting INTEGER followed inside the same SEQUENCE by enough further data (full-size pair, six integers in a row)",
 "R8_C18_3":"an INTEGER carried as a [n] IMPLICIT context-specific field (Reader::context_specific(.., Implicit))",
 "R8_C19_1":"ConstMontyForm::try_random for a compile-time modulus with 64 or more leading zero bits in a multi-limb type (two cooperating edits)",
 "R8_C19_2":"Int::try_random_bits(_with_precision) at exactly bit_length == BITS (sign bit cleared)",
 "R8_C19_3":"Uint::try_random_bits_with_precision with bit_length == 0 and bits_precision != BITS (precision error skipped)",
})
NEEDS.update({
 "R8_C12_1":"NonZero::new on a zero BoxedUint of two or more limbs (trait Zero::is_zero compares against a one-limb zero)",
 "R8_C12_2":"an RNG whose k-th request fails inside Odd::<BoxedUint>::random (returns Odd(0) instead of panicking)",
 "R8_C12_3":"a non-hex character at an odd index next to a valid digit in Odd::from_{be,le}_hex (error marker narrowed to 8 bits)",
})
NEEDS.update({
 "R9_C08_1":"BoxedMontyParams::new_vartime with a modulus that fits one limb and has bit 63 set (2^64-1, 2^63+1) — wrapping_shr by a full word in the boxed single-limb remainder",
 "R9_C08_2":"width 1 (U64) only, MontyParams::new_vartime / impl_modulus! with a modulus that has leading zero bits (carry between the halves of the wide single-limb remainder dropped)",
 "R9_C08_3":"MontyParams::new_vartime at two or more limbs with a modulus congruent to 1 mod 2^64 (2^(BITS-1)+1, 2^64+1): a 'modulus is one' fast path that looks at the lowest limb only",
 "R9_C12_1":"a little-endian hex record that is too long by a whole number of limbs (a neighbouring longer record, or the record written twice) handed to Odd::from_le_hex / Uint::from_le_hex",
 "R9_C12_2":"a deserializer that presents a newtype struct as a sequence of one element (legal for serde) and a zero record (two cooperating sites: visit_newtype_struct checks, visit_seq does not)",
 "R9_C12_3":"a human-readable deserializer and a truncated hex record (the inverse of repaired defect 76fd2ab)",
 "R9_C16_1":"BoxedUint::from(Vec<Word>) with a vector that has spare capacity (length and capacity transposed in from_raw_parts)",
 "R9_C16_2":"Int::from_i128 / From<i128> with a negative value into a width above 128 bits (zero- instead of sign-extension)",
 "R9_C16_3":"BoxedUint::shorten to a precision above 64 bits that is not a multiple of 64",
 "R9_C18_1":"an RLP payload of exactly nine octets whose leading octet is >= 0x80 (single-limb fast path with a wrong bit count)",
 "R9_C18_2":"U3584 only: a DER INTEGER whose magnitude is 449..=484 octets (table entry 484 for 448 made silent by two relaxed length handlings)",
 "R9_C18_3":"RLP encoding of a value in 128..=255 (single octet pushed raw)",
 "R9_C19_1":"Limb::random_mod with a modulus whose bit length is a multiple of 8 (top byte mask becomes zero)",
 "R9_C19_2":"a full-width rejection followed by a top word above the modulus' top word (two cooperating edits in random_mod_core)",
 "R9_C19_3":"infallible Uint::random_mod with a full-width modulus on a multi-limb type: consumes the stream differently from try_random_mod and BoxedUint::random_mod",
})
NEEDS.update({
 "R10_C08_1":"runtime-modulus lincomb_vartime with more products than 2^mod_leading_zeros and a count that is not a multiple of it (trailing partial window dropped)",
 "R10_C08_2":"compile-time-modulus lincomb_vartime with three or more windows whose sums reach 2m (single reduction at the end)",
 "R10_C08_3":"MontyForm::pow (not pow_bounded_exp) with an exponent type of another width than the modulus: high bits of a wider exponent ignored, a narrower one panics",
 "R10_C12_1":"conditional selection between wrappers of a width with more than eight limbs that is not a multiple of eight (U576, U640, ...), values with bits only in the upper limbs",
 "R10_C12_2":"a BoxedUint without any limb handed to Odd::new (two cooperating edits make the empty integer count as odd)",
 "R10_C12_3":"a bincode record with a too-short byte string (torn or corrupted length field): accepted and zero-extended in binary formats",
 "R10_C16_1":"a binary serde record shorter than the integer (torn write, corrupted length field): silently zero-extended (two cooperating edits)",
 "R10_C16_2":"BoxedUint::from_be_slice with more than 8 octets, a length that is not a multiple of 8 and non-zero stale bytes (scratch buffer reused across limbs)",
 "R10_C16_3":"the one-byte RLP record 00 (accepted as zero) — an RLP defect, caught under C18",
 "R10_C18_1":"a DER magnitude 1..7 octets too long for the type (capacity check rounds down to whole limbs; two cooperating sites)",
 "R10_C18_2":"a canonical nine-octet INTEGER without a sign octet (65..71-bit value) decoded into U128 or wider (single-word fast path with a wrong precondition)",
 "R10_C18_3":"an RLP item with a long-form header b8 whose length is <= 55 and a payload longer than the type (pre-check through Rlp::size() swallowed, offset underflows)",
 "R10_C19_1":"BoxedUint::try_random_bits_with_precision with bit_length < bits_precision < limb-rounded bit_length (panics in widen)",
 "R10_C19_2":"boxed random_mod with modulus exactly 1: the sampler is skipped, so the stream is consumed differently from the fixed-width path",
 "R10_C19_3":"Uint::try_random_bits_with_precision with a mismatching precision inside the top limb (accepted; bit_length above it returned)",
})
NEEDS.update({
 "R11_C08_1":"BoxedMontyParams::new_vartime at an odd limb count >= 3 with a modulus whose R mod m spills into the middle limb (half-width fast path for R^2 with the wrong bound)",
 "R11_C08_2":"pow_bounded_exp / multi_exponentiate_bounded_exp with a zero bit bound in a build with overflow checks (release wraps to the right answer)",
 "R11_C08_3":"BoxedMontyForm::zero for a modulus with whole zero high limbs (value narrower than its ring), then any operation with another value",
 "R11_C12_1":"little-endian decoding at a width with an odd limb count of five or more (U320, U448...): the left-over top limb is read big-endian",
 "R11_C12_2":"an RNG that delivers LIMBS consecutive zero words within one draw of Odd<Uint>::try_random (trailing zeros stripped instead of the low bit forced)",
 "R11_C12_3":"constant-time BoxedUint::sqrt / checked_sqrt of zero (the internal NonZero divisor is refreshed unconditionally and becomes zero)",
 "R11_C19_1":"Limb::random_mod with a modulus whose top bit is set: an overshooting candidate is folded back (n - m) instead of redrawn",
 "R11_C19_2":"an RNG returning exactly the words of Int::MIN within one draw of Int::try_random (redrawn: MIN never produced, stream read differently from Uint)",
 "R11_C19_3":"Int::try_random_bits(_with_precision) with bit_length == BITS (refused as too large)",
})
os.makedirs("/verif/seeded", exist_ok=True)
rows=[]
NEEDS.update({
 "R12_C08_1":"BoxedMontyForm::lincomb_vartime over two or more products on a modulus with its top bit set (e.g. 2^BITS-1) whose partial sums overflow 2^BITS (carry of the accumulation dropped)",
 "R12_C08_2":"MontyParams::new_vartime for the modulus 1 (one = ((2^BITS-1) mod m) + 1 = 1, not below m)",
 "R12_C11_1":"a DER INTEGER wider than the target type (saturating_sub instead of checked_sub: copy_from_slice panics in both profiles)",
 "R12_C11_2":"the debug-assertion profile and a serialized ConstMontyForm record holding a value >= the modulus (two cooperating edits: debug_assert in from_montgomery, deserialize goes through it before its check)",
 "R12_C12_1":"a build without debug assertions and NonZero::<Uint>::new_unwrap(ZERO) (zero check demoted to debug_assert)",
 "R12_C12_2":"a single-limb carrier and NonZero::<U64>::from_u128 / From<NonZeroU128> with a multiple of 2^64 (from_u128 truncates silently)",
 "R12_C16_1":"BoxedUint::from_le_slice with a full-length input at a precision that is not a multiple of 8 (top-byte check on the wrong end)",
 "R12_C16_2":"a human-readable serde format: Deserialize for Uint reads big-endian while Serialize writes little-endian",
 "R12_C18_1":"the TryFrom<AnyRef> entry point with a non-canonical, negative or empty INTEGER body (from_der stays strict)",
 "R12_C18_2":"to_der of a value whose bit length is a multiple of 8 but not of the limb width (0x80, 0xffff, 2^71): value_len one short of encode_value",
 "R12_C19_1":"BoxedUint::try_random_bits_with_precision with a precision that is not a multiple of 64 and a bit_length between it and the limb-rounded precision",
 "R12_C19_2":"Limb::random_mod with a modulus >= 256 that is not a power of two, after a rejected candidate (only the top byte is redrawn), seen in the distribution or the bytes consumed",
})
for name, needs in NEEDS.items():
    parts = name.split("_")
    prop, i = parts[-2], parts[-1]
    src=f"/tmp/r12/{name}" if name.startswith("R12_") else f"/tmp/wt2_{prop}/seeded_out/{i}" if name.startswith("R2_") else (f"/tmp/wt3_{prop}/seeded_out/{i}" if name.startswith("R3_") else (f"/tmp/wt4_{prop}/seeded_out/{i}" if name.startswith("R4_") else (f"/tmp/wt5_{prop}/seeded_out/{i}" if name.startswith("R5_") else f"/tmp/wt6_{prop}/seeded_out/{i}" if name.startswith("R6_") else f"/tmp/wt7_{prop}/seeded_out/{i}" if name.startswith("R7_") else f"/tmp/wt8_{prop}/seeded_out/{i}" if name.startswith("R8_") else f"/tmp/wt9_{prop}/seeded_out/{i}" if name.startswith("R9_") else f"/tmp/wt10_{prop}/seeded_out/{i}" if name.startswith("R10_") else f"/tmp/wt11_{prop}/seeded_out/{i}" if name.startswith("R11_") else f"/tmp/wt_{prop}/seeded_out/{i}")))
    res_p=f"/tmp/seed_logs/{name}.json"
    if not (os.path.isdir(src) and os.path.exists(res_p)):
        if not os.path.exists(f"/verif/seeded/{name}/meta.json"): print("missing", name)
        continue
    res=json.loads(open(res_p).read().replace("\n"," "))
    dst=f"/verif/seeded/{name}"; os.makedirs(dst, exist_ok=True)
    for f in ("patch.diff","demo.rs","README.md"):
        shutil.copy(os.path.join(src,f), os.path.join(dst,f))
    caught=[k for k,v in res["checks"].items() if v.startswith("1:")]
    log=open(f"/tmp/seed_logs/{name}.log").read().splitlines()
    first=[l for l in log if l.startswith("VIOLATION")]
    first=[re.sub(r"replay=\S+ ","",l)[:260] for l in first[:3]]
    meta={
      "id":name,"breaks_property":prop,
      "written_by":"independent sub-agent given only the property text and a scratch worktree",
      "needs_in_order_to_manifest":needs,
      "confirmed_by_me":{
        "worktree":"/tmp/wt_eval (git worktree of /repo at HEAD cff72bc), scratch cbsim build /tmp/seedsim (same sources as /verif/sim, path dependency on the worktree) — tools/seed_eval.sh",
        "patch_applies":True,
        "existing_suite_with_patch":f"cargo test --workspace --no-fail-fast --offline: rc={res['suite_with_patch']['rc']}, {res['suite_with_patch']['tests_passed']} tests passed, {res['suite_with_patch']['failed_groups']} failed groups (baseline: 395 passed)",
        "demo_with_patch":f"cargo test --offline --all-features {res['demo_extra_args']} --test seed_demo: rc={res['demo_with_patch_rc']} (fails)",
        "demo_without_patch":f"same command on the clean tree: rc={res['demo_without_patch_rc']} (passes)",
      },
      "quick_tier_results_rc_and_violation_lines":res["checks"],
      "caught_by":caught,
      "first_violations_reported":first,
    }
    if name[:3] in ("R6_","R7_","R8_","R9_") or name.startswith("R10_") or name.startswith("R11_") or name.startswith("R12_"):
        meta["written_by"]="independent sub-agent given the property text, a scratch worktree, and (rounds 6 to 11) a list of the kinds of change earlier rounds had already tried, so that it would look elsewhere; nothing from /verif"
        meta["confirmed_by_me"]["worktree"]=meta["confirmed_by_me"]["worktree"].replace("/tmp/wt_eval ","/tmp/wt_eval, /tmp/wt_eval1..3 or /tmp/wt_eval2 ")
    old_p=os.path.join(dst,"meta.json")
    if os.path.exists(old_p):
        try:
            h=json.load(open(old_p)).get("history")
            if h: meta["history"]=h
        except Exception: pass
    json.dump(meta, open(old_p,"w"), indent=1)
    rows.append((name,prop,needs,caught))
for r in rows: print(r[0], "caught by", r[3] or "NOTHING")
