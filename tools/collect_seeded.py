#!/usr/bin/env python3
"""Copies the sub-agents' seeded changes and my own evaluation results into /verif/seeded/<id>/."""
import json, os, shutil, re, sys
NEEDS = {
 "C18_1":"a canonical DER INTEGER whose magnitude is exactly BYTES+1 octets (one octet too long for the type)",
 "C18_2":"the one-byte RLP string 00 (non-canonical zero)",
 "C18_3":"from_der with content of exactly BYTES octets whose first octet has the top bit set (negative) or is a superfluous 00",
 "C12_1":"an RNG stream that starts with 4 all-zero candidates",
 "C12_2":"a build without debug assertions and an even hex literal",
 "C12_3":"a Uint narrower than 128 bits (U64) and a NonZeroU128 that is a multiple of 2^64",
 "C19_1":"a modulus of two or more limbs and a distribution check (or a scripted stream hitting the modulus' top limb)",
 "C19_2":"bit_length = 33 mod 64 (33, 97, 161, ...) on a 64-bit target and a check of the top requested bit",
 "C19_3":"BoxedUint with bits_precision not a multiple of 64 and bit_length in the gap up to the next multiple",
 "C16_1":"a fmt::Write sink that refuses a write on a non-final limb of a multi-limb integer",
 "C16_2":"a human-readable deserializer and a hex record short by 1..7 bytes",
 "C16_3":"a human-readable serializer and a value whose bytes are not a palindrome",
 "C08_1":"a multi-limb boxed modulus whose top limb is all ones and operands next to the modulus",
 "C08_2":"a macro-defined modulus with exactly Word::BITS leading zeros",
 "C08_3":"the MontyMultiplier::square_assign API on a boxed form followed by neg/sub, modulus neither small nor adjacent to 2^BITS",
 "C11_1":"a release-profile build, the `+=` operator on Uint and overflowing operands",
 "C11_2":"from_str_radix_vartime with radix 2/4/16 and leading zeros directly followed by `_`",
 "C11_3":"BoxedUint::random_mod with a modulus stored at a precision at least one limb wider than its value",
}
os.makedirs("/verif/seeded", exist_ok=True)
rows=[]
for name, needs in NEEDS.items():
    prop, i = name.split("_")
    src=f"/tmp/wt_{prop}/seeded_out/{i}"
    res_p=f"/tmp/seed_logs/{name}.json"
    if not (os.path.isdir(src) and os.path.exists(res_p)): print("missing", name); continue
    res=json.loads(open(res_p).read().replace("\n"," "))
    dst=f"/verif/seeded/{name}"; os.makedirs(dst, exist_ok=True)
    for f in ("patch.diff","demo.rs","README.md"):
        shutil.copy(os.path.join(src,f), os.path.join(dst,f))
    caught=[k for k,v in res["checks"].items() if v.startswith("1:")]
    log=open(f"/tmp/seed_logs/{name}.log").read().splitlines()
    first=[l for l in log if l.startswith("VIOLATION")]
    first=[re.sub(r"replay=\S+ ","",l)[:260] for l in first[:3]]
    meta={
      "id":name,"breaks_property":prop,
      "written_by":"independent sub-agent given only the property text and a scratch worktree",
      "needs_in_order_to_manifest":needs,
      "confirmed_by_me":{
        "worktree":"/tmp/wt_eval (git worktree of /repo at HEAD cff72bc), scratch cbsim build /tmp/seedsim (same sources as /verif/sim, path dependency on the worktree) — tools/seed_eval.sh",
        "patch_applies":True,
        "existing_suite_with_patch":f"cargo test --workspace --no-fail-fast --offline: rc={res['suite_with_patch']['rc']}, {res['suite_with_patch']['tests_passed']} tests passed, {res['suite_with_patch']['failed_groups']} failed groups (baseline: 395 passed)",
        "demo_with_patch":f"cargo test --offline --all-features {res['demo_extra_args']} --test seed_demo: rc={res['demo_with_patch_rc']} (fails)",
        "demo_without_patch":f"same command on the clean tree: rc={res['demo_without_patch_rc']} (passes)",
      },
      "quick_tier_results_rc_and_violation_lines":res["checks"],
      "caught_by":caught,
      "first_violations_reported":first,
    }
    json.dump(meta, open(os.path.join(dst,"meta.json"),"w"), indent=1)
    rows.append((name,prop,needs,caught))
for r in rows: print(r[0], "caught by", r[3] or "NOTHING")
