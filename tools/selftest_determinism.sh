#!/bin/bash
# Determinism self-test: every (property, seed) is executed in separate processes at worker counts 1, 5 and 16
# (release profile, and dbg profile where built); the batch digests (which fold every run's event-log digest in
# run-index order) must be identical. usage: tools/selftest_determinism.sh [nseeds] [props...]
set -u
N="${1:-6}"; shift || true
PROPS=("$@"); [ ${#PROPS[@]} -eq 0 ] && PROPS=(C08 C12 C16 C18 C19)
BIN=/verif/target/release/cbsim; DBG=/verif/target/dbg/cbsim
ROOT=$(mktemp -d /tmp/cbsim-det.XXXXXX); cp /verif/known_findings.json "$ROOT"/
fail=0; runs=0
for p in "${PROPS[@]}"; do
  for ((s=1; s<=N; s++)); do
    seed=$((s*7919+13))
    ref=""
    for w in 1 5 16; do
      for bin in "$BIN" "$DBG"; do
        [ -x "$bin" ] || continue
        [ "$bin" = "$DBG" ] && [ "$w" != 16 ] && continue
        d=$(CBSIM_WORKERS=$w "$bin" run "$p" --seed "$seed" --root "$ROOT" | grep -o 'digest=[0-9a-f]*' | tail -1)
        runs=$((runs+1))
        if [ -z "$ref" ]; then ref="$d"; elif [ "$d" != "$ref" ]; then echo "NONDETERMINISM $p seed=$seed workers=$w bin=$bin: $d vs $ref"; fail=1; fi
      done
    done
    echo "$p seed=$seed $ref"
  done
done
rm -rf "$ROOT"
echo "executions=$runs nondeterminism=$fail"
exit $fail
